#!/usr/bin/env python3
"""
translate.py - the secondary tie of DESIGN 4.2: a deliberately tiny Python -> Lean translator.

On every run it reads the SOURCE of a fixed list of straight-line integer kernels from the working tree under test
(`inspect.getsource` on the live classes of $VERIF_REPO), translates each function body statement by statement into a Lean 4
definition and writes lean/MpgsModel/Generated/Kernels.lean.  lean/MpgsModel/Props/Equiv.lean proves, for every kernel, that the
regenerated definition equals the hand-written model definition the property theorems are about - so those theorems are re-checked
against what the code says now, not against what it said when the model was written.

Accepted subset (anything else stops the translator with `Unsupported`, which the checks report as a broken obligation):
  statements   docstring, `x = e`, `self.a = e`, `Cls.A = e`, `x op= e`, `if/elif/else`, `return [e]`, `raise Exc(...)`
  expressions  int literals, names, `self.a`, class constants (evaluated in the live module unless assigned in the function),
               + - * // % >> << | & , unary -, comparisons (chained), and/or/not, and a fixed table of calls
               (`super().__add__/__sub__/__lt__/__gt__`, `int(x)`, `x.diff(y)`, `self.__class__(e)`, `isinstance(x, SeqNum)`, `x is None`)
Translation scheme: a statement list becomes one Lean expression of type `Except Err R`; assignment = shadowing `let`; an `if`
statement becomes `if c then [[then ++ rest]] else [[else ++ rest]]` (the continuation is duplicated - the kernels are tiny);
`return e` = `.ok (e, state)`, `raise X` = `.error .x`.  Variables are `Int` unless declared `Nat` (bit sets); mixed arithmetic casts
the `Nat` side with `Int.ofNat`, a shift count is `.toNat` (Python raises ValueError for a negative count - none of the kernels can
produce one, and the equivalence theorems would not care: stated in DESIGN 5 as modelled-not-verified).
"""
import ast, inspect, json, os, sys, textwrap, hashlib


class Unsupported(Exception):
    pass


ERR = {"ValueError": ".valueError", "DuplicationError": ".duplication", "TypeError": ".typeError"}


class Fn:
    def __init__(self, lean, obj, params, state=(), types=None, ret="Int", consts=None, doc="", extract=None, seq=()):
        self.extract = extract
        self.seq = set(seq)           # variables that hold SeqNum objects (rendered as Int; their + - < > are overloaded)
        self.lean, self.obj, self.params, self.state = lean, obj, list(params), list(state)
        self.types, self.ret, self.consts, self.doc = dict(types or {}), ret, dict(consts or {}), doc


class Tr:
    def __init__(self, fn, module_ns, callees):
        self.fn, self.ns, self.callees = fn, module_ns, callees
        self.assigned_attrs = set()
        self.loop_tail = None
        self.loops = []

    # ---------------------------------------------------------------- names
    def attr_chain(self, node):
        parts = []
        while isinstance(node, ast.Attribute):
            parts.append(node.attr)
            node = node.value
        if isinstance(node, ast.Name):
            parts.append(node.id)
            return ".".join(reversed(parts))
        return None

    def var_of(self, chain):
        return chain.replace(".", "_")

    def typ(self, var):
        return self.fn.types.get(var, "Int")

    def lean_ty(self, var):
        t = self.typ(var)
        return "Int" if t == "Len" else "List UInt8" if t == "Bytes" else t

    # ---------------------------------------------------------------- expressions: return (text, type) with type in Int/Nat/Bool/lit
    def lit(self, v, want):
        if v < 0:
            return "(%d : Int)" % v
        return "(%d : %s)" % (v, want)

    def coerce(self, e, want):
        t, ty = e
        if ty == "lit":
            return self.lit(t, want)
        if ty == want:
            return t
        if ty == "Seq" and want == "Int":
            return t
        if (ty, want) in (("Len", "Int"), ("Int", "Len"), ("Bytes", "List UInt8"), ("List UInt8", "Bytes")):
            return t
        if ty == "Nat" and want == "Int":
            return "(%s : Int)" % t
        if ty == "Int" and want == "Nat":
            return "(%s).toNat" % t
        raise Unsupported("cannot use a %s as %s: %s" % (ty, want, t))

    def join(self, a, b):
        """common numeric type of two operands"""
        tys = {"Int" if t in ("Seq", "Len") else t for t in (a[1], b[1])} - {"lit"}
        if not tys:
            return "Int"
        if tys == {"Nat"}:
            return "Nat"
        if "Bool" in tys:
            raise Unsupported("arithmetic on a Bool")
        return "Int"

    def expr(self, n):
        if isinstance(n, ast.IfExp):
            a, b = self.expr(n.body), self.expr(n.orelse)
            ty = a[1] if a[1] == b[1] else self.join(a, b)
            return ("(if %s then %s else %s)" % (self.cond(n.test), self.coerce(a, ty), self.coerce(b, ty)), ty)
        if isinstance(n, ast.Attribute) and n.attr == "value":
            ch = self.attr_chain(n)
            if not (ch and (self.var_of(ch) in self.fn.state or self.var_of(ch) in self.assigned_attrs)):
                inner = self.expr(n.value)
                if inner[1] == "Bytes":            # the value of an enum member whose values are byte strings
                    return inner
        if isinstance(n, ast.Constant) and n.value == b"":
            return ("(0 : Int)", "Len")
        if isinstance(n, ast.List) and not n.elts:
            return ("([] : List Int)", "List Int")
        if isinstance(n, ast.Subscript) and isinstance(n.slice, ast.Slice) and n.slice.step is None:
            # byte strings are abstracted to their lengths: len(p[:k]) = min(len p, k), len(p[k:]) = max(0, len p - k)  (k >= 0)
            b = self.expr(n.value)
            if b[1] != "Len":
                raise Unsupported("slice of something that is not a byte string abstracted to its length")
            lo, hi = n.slice.lower, n.slice.upper
            if lo is None and hi is not None:
                return ("(min %s %s)" % (b[0], self.coerce(self.expr(hi), "Int")), "Len")
            if hi is None and lo is not None:
                return ("(max 0 (%s - %s))" % (b[0], self.coerce(self.expr(lo), "Int")), "Len")
            raise Unsupported("slice with both or no bounds")
        if isinstance(n, ast.Constant):
            if isinstance(n.value, bool):
                return ("true" if n.value else "false", "Bool")
            if isinstance(n.value, int):
                return (n.value, "lit")
            raise Unsupported("constant %r" % (n.value,))
        if isinstance(n, ast.Name):
            if n.id in self.fn.consts:
                return (self.fn.consts[n.id], "lit")
            return (n.id, "Seq" if n.id in self.fn.seq else self.typ(n.id))
        if isinstance(n, ast.Attribute):
            chain = self.attr_chain(n)
            if chain is None:
                raise Unsupported(ast.dump(n))
            var = self.var_of(chain)
            if var in self.fn.state or var in self.assigned_attrs:
                return (var, "Seq" if var in self.fn.seq else self.typ(var))
            obj = self.const_obj(chain)
            val = getattr(obj, "value", obj) if not isinstance(obj, (int, bytes)) else obj
            if isinstance(val, bytes) and not isinstance(obj, (int, bytes)):
                return ("([%s] : List UInt8)" % ", ".join("0x%02x" % c for c in val), "Bytes")
            if isinstance(val, int) and not isinstance(val, bool) and not isinstance(obj, int):
                return (int(val), "lit")           # a member of an enum with integer values: compared through its value
            return (self.const(chain), "lit")
        if isinstance(n, ast.UnaryOp):
            if isinstance(n.op, ast.USub):
                e = self.expr(n.operand)
                if e[1] == "lit":
                    return (-e[0], "lit")
                return ("(-%s)" % self.coerce(e, "Int"), "Int")
            if isinstance(n.op, ast.Not):
                return ("(!%s)" % self.cond(n.operand), "Bool")
            raise Unsupported(ast.dump(n.op))
        if isinstance(n, ast.BinOp):
            a, b = self.expr(n.left), self.expr(n.right)
            op = type(n.op)
            if a[1] == "Seq" and op in (ast.Add, ast.Sub):
                # SeqNum overloads + and - (ring arithmetic through the constructor): not the int operation
                raise Unsupported("`%s` on a SeqNum operand dispatches to SeqNum.__add__/__sub__" % ast.unparse(n))
            if op in (ast.RShift, ast.LShift):
                sym = ">>>" if op is ast.RShift else "<<<"
                cnt = ("%d" % b[0]) if b[1] == "lit" else "(%s).toNat" % self.coerce(b, "Int")
                return ("(%s %s %s)" % (self.coerce(a, "Nat"), sym, cnt), "Nat")
            if op in (ast.BitAnd, ast.BitOr):
                sym = "&&&" if op is ast.BitAnd else "|||"
                return ("(%s %s %s)" % (self.coerce(a, "Nat"), sym, self.coerce(b, "Nat")), "Nat")
            sym = {ast.Add: "+", ast.Sub: "-", ast.Mult: "*", ast.FloorDiv: "/", ast.Mod: "%"}.get(op)
            if sym is None:
                raise Unsupported(ast.dump(n.op))
            if a[1] == "lit" and b[1] == "lit":
                v = {"+": a[0] + b[0], "-": a[0] - b[0], "*": a[0] * b[0], "/": a[0] // b[0] if b[0] else None, "%": a[0] % b[0] if b[0] else None}[sym]
                if v is None:
                    raise Unsupported("division by zero in a constant")
                return (v, "lit")
            ty = self.join(a, b)
            if sym == "-":
                ty = "Int"            # Python ints do not truncate
            if sym in ("/", "%"):
                # Python floor division / modulo: Lean's `Int./` and `%` are T-rounding / Euclidean - only literal positive divisors
                if b[1] != "lit" or b[0] <= 0:
                    raise Unsupported("floor division by a non-constant")
                return ("(Int.fdiv %s %s)" % (self.coerce(a, "Int"), self.lit(b[0], "Int")) if sym == "/" else
                        "(Int.fmod %s %s)" % (self.coerce(a, "Int"), self.lit(b[0], "Int")), "Int")
            return ("(%s %s %s)" % (self.coerce(a, ty), sym, self.coerce(b, ty)), ty)
        if isinstance(n, ast.Compare):
            parts, left = [], self.expr(n.left)
            for op, right in zip(n.ops, n.comparators):
                if isinstance(op, (ast.Is, ast.IsNot)) and isinstance(right, ast.Constant) and right.value is None:
                    parts.append("false" if isinstance(op, ast.Is) else "true")      # declared parameters are never None
                    left = None
                    continue
                r = self.expr(right)
                if left[1] == "Seq" and r[1] == "Seq" and isinstance(op, (ast.Lt, ast.Gt)):
                    raise Unsupported("`%s` between SeqNums dispatches to SeqNum.__lt__/__gt__" % ast.unparse(n))
                sym = {ast.Lt: "<", ast.LtE: "≤", ast.Gt: ">", ast.GtE: "≥", ast.Eq: "=", ast.NotEq: "≠"}.get(type(op))
                if sym is None:
                    raise Unsupported(ast.dump(op))
                ty = self.join(left, r)
                parts.append("decide (%s %s %s)" % (self.coerce(left, ty), sym, self.coerce(r, ty)))
                left = r
            return ("(" + " && ".join(parts) + ")", "Bool")
        if isinstance(n, ast.BoolOp):
            sym = " && " if isinstance(n.op, ast.And) else " || "
            return ("(" + sym.join(self.cond(v) for v in n.values) + ")", "Bool")
        if isinstance(n, ast.Call):
            return self.call(n)
        raise Unsupported(ast.dump(n)[:120])

    def cond(self, n):
        """expression in a boolean context (Python truthiness of an int = non-zero)"""
        t, ty = self.expr(n)
        if ty == "Bool":
            return t
        if ty == "lit":
            return "true" if t else "false"
        return "(%s != 0)" % t

    def const_obj(self, chain):
        try:
            head, *rest = chain.split(".")
            v = self.fn.obj.__self_class__ if head in ("self", "cls") else self.ns[head]
            for r in rest:
                v = getattr(v, r)
            return v
        except Exception as e:
            raise Unsupported("cannot resolve constant %s: %s" % (chain, e))

    def const(self, chain):
        try:
            head, *rest = chain.split(".")
            if head in ("self", "cls"):
                v = self.fn.obj.__self_class__
            else:
                v = self.ns[head]
            for r in rest:
                v = getattr(v, r)
        except Exception as e:
            raise Unsupported("cannot resolve constant %s: %s" % (chain, e))
        if isinstance(v, bool) or not isinstance(v, int):
            raise Unsupported("constant %s is not an int: %r" % (chain, v))
        return int(v)

    def call(self, n):
        f = n.func
        # super().__add__(x) and friends: the plain int operation on self
        if isinstance(f, ast.Attribute) and isinstance(f.value, ast.Call) and isinstance(f.value.func, ast.Name) and f.value.func.id == "super":
            if f.attr == "__new__" and len(n.args) == 2:
                return self.expr(n.args[1])
            sym = {"__add__": "+", "__sub__": "-", "__lt__": "<", "__gt__": ">"}.get(f.attr)
            if sym is None or len(n.args) != 1:
                raise Unsupported("super().%s" % f.attr)
            a = self.coerce(("self", self.typ("self")), "Int")
            b = self.coerce(self.expr(n.args[0]), "Int")
            if sym in "<>":
                return ("decide (%s %s %s)" % (a, sym, b), "Bool")
            return ("(%s %s %s)" % (a, sym, b), "Int")
        if isinstance(f, ast.Name) and f.id == "int" and len(n.args) == 1:
            return self.expr(n.args[0])
        if isinstance(f, ast.Name) and f.id == "len" and len(n.args) == 1:
            e = self.expr(n.args[0])
            if e[1] != "Len":
                raise Unsupported("len() of something that is not a byte string abstracted to its length")
            return (e[0], "Int")
        if isinstance(f, ast.Name) and f.id == "abs" and len(n.args) == 1:
            return ("(Int.ofNat (%s).natAbs)" % self.coerce(self.expr(n.args[0]), "Int"), "Int")
        if isinstance(f, ast.Name) and f.id == "isinstance":
            return ("true", "Bool")                     # parameters have their declared types
        if isinstance(f, ast.Attribute) and f.attr in self.callees and self.callees[f.attr][1] == "pure":
            recv = self.coerce(self.expr(f.value), "Int")
            args = " ".join(self.coerce(self.expr(a), "Int") for a in n.args)
            return ("(%s %s %s)" % (self.callees[f.attr][0], recv, args), self.callees[f.attr][2])
        raise Unsupported("call %s" % ast.dump(f)[:100])

    def pack_fields(self, pk):
        """`struct.pack(FMT, a, b, ...)` with a constant big-endian format -> the Lean list of packed fields, or None"""
        if not (isinstance(pk, ast.Call) and self.attr_chain(pk.func) == "struct.pack" and pk.args
                and isinstance(pk.args[0], ast.Constant) and isinstance(pk.args[0].value, str)):
            return None
        fmt = pk.args[0].value
        if fmt[:1] not in ">!":
            raise Unsupported("struct format %r is not big-endian" % fmt)
        import re as _re
        toks = _re.findall(r"(\d*)([a-zA-Z])", fmt[1:])
        if "".join(a + b for a, b in toks) != fmt[1:] or len(toks) != len(pk.args) - 1:
            raise Unsupported("struct format %r" % fmt)
        fields = []
        for (cnt, ch), a in zip(toks, pk.args[1:]):
            if ch == "s":
                fields.append("packS %d %s" % (int(cnt or 1), self.coerce(self.expr(a), "List UInt8")))
            elif ch in "HBbhlqQL" and not cnt:
                fields.append("packField '%s' %s" % (ch, self.coerce(self.expr(a), "Int")))
            else:
                raise Unsupported("struct format %r" % fmt)
        return "(packAll [%s])" % ", ".join(fields)

    def raising_call(self, n):
        """`self.__class__(e)` / `cls(e)`: the constructor, which may raise - only allowed as the operand of `return`"""
        if isinstance(n, ast.Call) and len(n.args) == 1:
            chain = self.attr_chain(n.func) if isinstance(n.func, ast.Attribute) else (n.func.id if isinstance(n.func, ast.Name) else None)
            if chain in ("self.__class__", "cls"):
                return "(SeqNum_new %s)" % self.coerce(self.expr(n.args[0]), "Int")
        return None

    # ---------------------------------------------------------------- statements
    def state_tuple(self):
        return ", ".join(self.fn.out_state)

    def result(self, val):
        if self.fn.out_state and val is not None:
            return ".ok (%s, %s)" % (val, self.state_tuple())
        if self.fn.out_state:
            return ".ok (%s)" % self.state_tuple()
        return ".ok (%s)" % val

    def target(self, t):
        if isinstance(t, ast.Name):
            return t.id
        chain = self.attr_chain(t)
        if chain is None:
            raise Unsupported("assignment target " + ast.dump(t)[:80])
        var = self.var_of(chain)
        if var not in self.fn.out_state:
            raise Unsupported("assignment to %s, which is not declared as state of %s" % (chain, self.fn.lean))
        return var

    def block(self, stmts, ind):
        pad = "  " * ind
        if not stmts and self.loop_tail is not None:
            return pad + self.loop_tail
        if not stmts:
            if self.fn.ret is not None:
                raise Unsupported("%s can fall off its end (returns None)" % self.fn.lean)
            return pad + self.result(None)
        s, rest = stmts[0], stmts[1:]
        if isinstance(s, ast.Expr) and isinstance(s.value, ast.Constant) and isinstance(s.value.value, str):
            return self.block(rest, ind)
        if isinstance(s, ast.Pass):
            return self.block(rest, ind)
        if (isinstance(s, ast.Expr) and isinstance(s.value, ast.Call) and isinstance(s.value.func, ast.Attribute)
                and s.value.func.attr == "append" and len(s.value.args) == 1):
            v = self.target(s.value.func.value)
            if self.typ(v) != "List Int":
                raise Unsupported("append to %s" % v)
            e = self.coerce(self.expr(s.value.args[0]), "Int")
            return "%slet %s : List Int := %s ++ [%s]\n%s" % (pad, v, v, e, self.block(rest, ind))
        if isinstance(s, ast.While):
            # a loop becomes a recursive definition over a fuel argument (emitted in front of the kernel); the variables it carries
            # are the ones its body assigns; running out of fuel is an error of its own, never a silent stop
            if s.orelse or self.loop_tail is not None:
                raise Unsupported("while/else or nested loop")
            carried = []
            for node in [x for st in s.body for x in ast.walk(st)]:
                tg = None
                if isinstance(node, ast.Assign):
                    tg = node.targets[0]
                elif isinstance(node, ast.AugAssign):
                    tg = node.target
                elif isinstance(node, ast.Call) and isinstance(node.func, ast.Attribute) and node.func.attr == "append":
                    tg = node.func.value
                if tg is not None:
                    v = self.target(tg)
                    if v not in carried:
                        carried.append(v)
            name = self.fn.lean + "_loop"
            ro = [(p, t) for p, t in self.fn.all_binders if p not in carried and p != "fuel"]
            args = " ".join([p for p, _ in ro] + carried)
            self.loop_tail = "(%s fuel %s)" % (name, args)
            body = self.block(list(s.body), 3)
            self.loop_tail = None
            ctup = ", ".join(carried)
            cty = " × ".join(self.lean_ty(v) for v in carried)
            self.loops.append("/-- the `while` loop of %s -/\ndef %s : Nat → %s → Except Err (%s)\n  | 0, %s => .error .fuel\n  | fuel + 1, %s =>\n    if %s then\n%s\n    else\n      .ok (%s)\n\n" % (
                self.fn.doc.split(":")[0], name, " → ".join([("Int" if t == "Len" else t) for _, t in ro] + [self.lean_ty(v) for v in carried]), cty,
                ", ".join("_" for _ in ro + carried), ", ".join([p for p, _ in ro] + carried), self.cond(s.test), body, ctup))
            return ("%smatch %s fuel %s with\n%s| .error e => .error e\n%s| .ok (%s) =>\n%s"
                    % (pad, name, args, pad, pad, ctup, self.block(rest, ind + 1)))
        if isinstance(s, ast.Expr) and isinstance(s.value, ast.Call) and self.attr_chain(s.value.func) == "stream.write":
            # `stream.write(struct.pack(FMT, a, b, ...))`: the bytes are appended to the output state `out`; `struct.error` propagates
            if "out" not in self.fn.out_state or len(s.value.args) != 1:
                raise Unsupported("stream.write in a kernel without an output state")
            pk = s.value.args[0]
            if not (isinstance(pk, ast.Call) and self.attr_chain(pk.func) == "struct.pack" and pk.args
                    and isinstance(pk.args[0], ast.Constant) and isinstance(pk.args[0].value, str)):
                raise Unsupported("stream.write of something that is not struct.pack(<constant format>, ...)")
            fmt = pk.args[0].value
            if not (fmt[:1] in ">!" and all(c in "HBbhlqQL" for c in fmt[1:]) and len(fmt) - 1 == len(pk.args) - 1):
                raise Unsupported("struct format %r" % fmt)
            args = ", ".join(self.coerce(self.expr(a), "Int") for a in pk.args[1:])
            return ("%smatch structPack %s [%s] with\n%s| .error e => .error e\n%s| .ok bs =>\n%s  let out : List UInt8 := out ++ bs\n%s"
                    % (pad, json.dumps(fmt[1:]), args, pad, pad, pad, self.block(rest, ind + 1)))
        if isinstance(s, (ast.Assign, ast.AugAssign)) and self.pack_fields(s.value) is not None:
            # `x = struct.pack(...)` / `x += struct.pack(...)`: struct.error propagates, otherwise the bytes are bound / appended
            tg = s.targets[0] if isinstance(s, ast.Assign) else s.target
            v = self.target(tg)
            self.fn.types[v] = "Bytes"
            if isinstance(s, ast.AugAssign) and not isinstance(s.op, ast.Add):
                raise Unsupported("augmented assignment of struct.pack other than +=")
            rhs = "bs" if isinstance(s, ast.Assign) else "%s ++ bs" % v
            return ("%smatch %s with\n%s| .error e => .error e\n%s| .ok bs =>\n%s  let %s : List UInt8 := %s\n%s"
                    % (pad, self.pack_fields(s.value), pad, pad, pad, v, rhs, self.block(rest, ind + 1)))
        if isinstance(s, ast.Assign):
            if len(s.targets) != 1:
                raise Unsupported("multiple assignment")
            v = self.target(s.targets[0])
            ev = self.expr(s.value)
            if ev[1] == "Seq":
                self.fn.seq.add(v)
            else:
                self.fn.seq.discard(v)
            if ev[1] == "Bytes" and isinstance(s.targets[0], ast.Name):
                self.fn.types[v] = "Bytes"
            e = self.coerce(ev, self.typ(v))
            return "%slet %s : %s := %s\n%s" % (pad, v, self.lean_ty(v), e, self.block(rest, ind))
        if isinstance(s, ast.AugAssign):
            v = self.target(s.target)
            load = ast.copy_location(ast.BinOp(left=self._load(s.target), op=s.op, right=s.value), s)
            e = self.coerce(self.expr(load), self.typ(v))
            return "%slet %s : %s := %s\n%s" % (pad, v, self.typ(v), e, self.block(rest, ind))
        if isinstance(s, ast.If):
            c = self.cond(s.test)
            return "%sif %s then\n%s\n%selse\n%s" % (pad, c, self.block(list(s.body) + rest, ind + 1), pad,
                                                     self.block(list(s.orelse) + rest, ind + 1))
        if isinstance(s, ast.Return):
            if s.value is None or (isinstance(s.value, ast.Constant) and s.value.value is None):
                if self.fn.ret is not None:
                    raise Unsupported("bare return in a function declared to return %s" % self.fn.ret)
                return pad + self.result(None)
            rc = self.raising_call(s.value)
            if rc is not None:
                if self.fn.out_state:
                    raise Unsupported("constructor call in a function with state")
                return pad + rc
            if self.fn.ret is None:
                raise Unsupported("%s returns a value but is declared to return None" % self.fn.lean)
            e = self.expr(s.value)
            val = self.cond(s.value) if self.fn.ret == "Bool" else self.coerce(e, self.fn.ret)
            return pad + self.result(val)
        if isinstance(s, ast.Raise):
            exc = s.exc.func.id if isinstance(s.exc, ast.Call) and isinstance(s.exc.func, ast.Name) else (s.exc.id if isinstance(s.exc, ast.Name) else None)
            if exc not in ERR:
                raise Unsupported("raise of %r" % exc)
            return pad + ".error " + ERR[exc]
        raise Unsupported("statement %s" % type(s).__name__)

    def _load(self, t):
        if isinstance(t, ast.Name):
            return ast.Name(id=t.id, ctx=ast.Load())
        return ast.Attribute(value=t.value, attr=t.attr, ctx=ast.Load())


def _ack_test(fdef):
    """`_handle_ack_bits`: the statement `diff = hdr.ack.diff(seqnum)` and the test of the `if` that follows it inside the loop"""
    loops = [n for n in fdef.body if isinstance(n, ast.For)]
    if len(loops) != 1 or len(loops[0].body) != 2:
        raise Unsupported("_handle_ack_bits: expected one loop of two statements")
    a, i = loops[0].body
    if not (isinstance(a, ast.Assign) and isinstance(i, ast.If) and isinstance(loops[0].target, ast.Name) and loops[0].target.id == "seqnum"):
        raise Unsupported("_handle_ack_bits: loop body is not `diff = ...; if ...`")
    return [a, ast.Return(value=i.test)]


def _stale_test(fdef):
    """`_recv_datagram`: `newest = self.bitfield_pkt.current_seqnum` and the test of the `if` that raises the stale DuplicationError"""
    for node in ast.walk(fdef):
        if isinstance(node, ast.Try):
            b = node.body
            for k in range(len(b) - 1):
                if (isinstance(b[k], ast.Assign) and isinstance(b[k].targets[0], ast.Name) and b[k].targets[0].id == "newest"
                        and isinstance(b[k + 1], ast.If) and len(b[k + 1].body) == 1 and isinstance(b[k + 1].body[0], ast.Raise)):
                    return [b[k], ast.Return(value=b[k + 1].test)]
    raise Unsupported("_recv_datagram: the stale-datagram guard was not found in its expected shape")


def _split_loop(fdef):
    """`FragmentSender.build`: the size check, `self.fragments = []` and the `while` loop that cuts the payload; result = the list"""
    body = [st for st in fdef.body if not (isinstance(st, ast.Expr) and isinstance(st.value, ast.Constant))]
    if not (len(body) >= 3 and isinstance(body[0], ast.If) and isinstance(body[1], ast.Assign) and isinstance(body[2], ast.While)):
        raise Unsupported("FragmentSender.build does not start with `if ...: raise`, `self.fragments = []`, `while ...`")
    return body[:3]


def _crypto_test(fname):
    """the test of the `if` statement whose body calls crypto.<fname>: the decision to seal / to open under the key"""
    def extract(fdef):
        for node in ast.walk(fdef):
            if isinstance(node, ast.If):
                for sub in [x for st in node.body for x in ast.walk(st)]:
                    if isinstance(sub, ast.Call) and isinstance(sub.func, ast.Attribute) and sub.func.attr == fname:
                        return [ast.Return(value=node.test)]
        raise Unsupported("no `if` whose body calls crypto.%s" % fname)
    return extract


def kernels(C, Z=None):
    """the fixed list of kernels; C, Z = the live `mpgameserver.connection` / `mpgameserver.serializable` modules of the tree under test"""
    S, B, P = C.SeqNum, C.BitField, C.Packet

    def f(cls, name):
        o = cls.__dict__[name]
        o = o.__func__ if isinstance(o, (staticmethod, classmethod)) else o
        try:
            o.__self_class__ = cls
        except Exception:
            pass
        return o
    ks = [
        Fn("SeqNum_new", f(S, "__new__"), [("value", "Int")], doc="SeqNum.__new__(value) for an int `value`"),
        Fn("SeqNum_diff", f(S, "diff"), [("self", "Int"), ("other", "Int")], seq=("self", "other"), doc="SeqNum.diff"),
        Fn("SeqNum_add", f(S, "__add__"), [("self", "Int"), ("other", "Int")], seq=("self", "other"), doc="SeqNum.__add__"),
        Fn("SeqNum_sub", f(S, "__sub__"), [("self", "Int"), ("other", "Int")], seq=("self", "other"), doc="SeqNum.__sub__"),
        Fn("SeqNum_newer_than", f(S, "newer_than"), [("self", "Int"), ("other", "Int")], seq=("self", "other"), ret="Bool", doc="SeqNum.newer_than"),
        Fn("SeqNum_lt", f(S, "__lt__"), [("self", "Int"), ("other", "Int")], seq=("self", "other"), ret="Bool", doc="SeqNum.__lt__ (other a SeqNum)"),
        Fn("SeqNum_gt", f(S, "__gt__"), [("self", "Int"), ("other", "Int")], seq=("self", "other"), ret="Bool", doc="SeqNum.__gt__ (other a SeqNum)"),
        Fn("BitField_insert", f(B, "insert"), [("seqnum", "Int")], state=["self_bits", "self_current_seqnum"],
           types={"self_bits": "Nat", "self_onehot": "Nat", "self_nbits": "Nat", "mask": "Nat"}, ret=None, seq=("seqnum", "self_current_seqnum"),
           doc="BitField.insert; state = (bits, current_seqnum); nbits and onehot are read only"),
        Fn("BitField_contains", f(B, "contains"), [("seqnum", "Int")], state=[],
           types={"self_bits": "Nat", "self_onehot": "Nat", "self_nbits": "Nat", "mask": "Nat"}, ret="Bool", seq=("seqnum", "self_current_seqnum"),
           doc="BitField.contains"),
        Fn("Packet_overhead", f(P, "overhead"), [("n", "Int")], doc="Packet.overhead"),
        Fn("Packet_setMTU", f(P, "setMTU"), [("mtu", "Int")], ret=None,
           state=["Packet_MTU", "Packet_MAX_SIZE", "Packet_MAX_PAYLOAD_SIZE", "Packet_MAX_SIZE_CRC", "Packet_MAX_FRAGMENT_SIZE", "Packet_RECV_SIZE"],
           doc="Packet.setMTU; state = the six class constants it assigns"),
        Fn("ack_names", f(C.ConnectionBase, "_handle_ack_bits"), [("seqnum", "Int")], ret="Bool", extract=_ack_test,
           types={"hdr_ack_bits": "Nat"}, seq=("seqnum", "hdr_ack"),
           doc="the test `_handle_ack_bits` applies to a pending datagram `seqnum` given the peer's header fields"),
        Fn("stale_datagram", f(C.ConnectionBase, "_recv_datagram"), [], ret="Bool", extract=_stale_test,
           types={"self_bitfield_pkt_nbits": "Nat"}, seq=("self_bitfield_pkt_current_seqnum", "pkt_hdr_seq"),
           doc="the stale-datagram guard of `_recv_datagram` (true = dropped as a replay)"),
    ]
    ks.append(Fn("FragmentSender_split", f(C.FragmentSender, "build"), [("fuel", "Nat"), ("payload", "Len")], ret=None, state=["self_fragments"], extract=_split_loop,
                 types={"self_fragments": "List Int", "payload": "Len"},
                 doc="FragmentSender.build: the lengths of the fragments the `while` loop cuts a payload of a given length into"))
    ks.append(Fn("Packet_total_size", f(C.Packet, "total_size"), [("key", "Bool")], ret="Int",
                 types={"self_msg": "Len"},
                 doc="Packet.total_size(key): `key` = whether a key is given; the packet type through its integer value"))
    ks.append(Fn("Packet_to_bytes_seals", f(C.Packet, "to_bytes"), [("key", "Bool")], ret="Bool", extract=_crypto_test("encrypt_gcm"),
                 doc="Packet.to_bytes: the condition under which the packet is sealed with AES-GCM (otherwise: header + plaintext + CRC)"))
    ks.append(Fn("Packet_from_bytes_opens", f(C.Packet, "from_bytes"), [("key", "Bool")], ret="Bool", extract=_crypto_test("decrypt_gcm"),
                 doc="Packet.from_bytes: the condition under which a datagram must open under the key (otherwise: CRC check)"))
    ks.append(Fn("PacketHeader_to_bytes", f(C.PacketHeader, "to_bytes"), [], ret="List UInt8",
                 types={"self_isServer": "Bool"},
                 doc="PacketHeader.to_bytes: the 20 header bytes (the first 12 are the AES-GCM nonce), or struct.error"))
    if Z is not None:
        k = Fn("serialize_int", Z.serialize_int, [("stream", "Unit"), ("value", "Int")], state=["out"], types={"out": "List UInt8"}, ret=None,
               doc="serialize_int: width selection and `struct.pack`; state = the bytes written to `stream`")
        k.ns = vars(Z)
        ks.append(k)
    return ks


READS = {   # read-only attributes that become extra parameters (they are object state the kernel does not assign)
    "BitField_insert": [("self_nbits", "Nat"), ("self_onehot", "Nat"), ("self_bits", "Nat"), ("self_current_seqnum", "Int")],
    "BitField_contains": [("self_nbits", "Nat"), ("self_onehot", "Nat"), ("self_bits", "Nat"), ("self_current_seqnum", "Int")],
    "ack_names": [("hdr_ack", "Int"), ("hdr_ack_bits", "Nat")],
    "stale_datagram": [("self_bitfield_pkt_current_seqnum", "Int"), ("self_bitfield_pkt_nbits", "Nat"), ("pkt_hdr_seq", "Int")],
    "serialize_int": [("out", "List UInt8")],
    "Packet_total_size": [("self_hdr_pkt_type", "Int"), ("self_msg", "Len")],
    "Packet_to_bytes_seals": [("self_hdr_pkt_type", "Int")],
    "Packet_from_bytes_opens": [("hdr_pkt_type", "Int")],
    "PacketHeader_to_bytes": [("self_isServer", "Bool"), ("self_ctime", "Int"), ("self_seq", "Int"), ("self_ack", "Int"),
                              ("self_pkt_type_value", "Int"), ("self_length", "Int"), ("self_count", "Int"), ("self_ack_bits", "Int")],
    "FragmentSender_split": [("Packet_MAX_PAYLOAD_SIZE", "Int"), ("Packet_MAX_FRAGMENT_SIZE", "Int")],
}

CALLEES = {"diff": ("SeqNum_diffV", "pure", "Int")}

PRELUDE = '''/-
GENERATED by harness/translate.py from the working tree under test - do not edit.
One Lean definition per Python kernel, statement by statement (see the translator's docstring for the scheme).
-/
namespace Mpgs.Gen

inductive Err | valueError | duplication | typeError | structError | fuel
  deriving DecidableEq, Repr

/-- big-endian image of `n` in `w` bytes -/
def beBytes : Nat → Nat → List UInt8
  | 0, _ => []
  | w + 1, n => UInt8.ofNat (n / 256 ^ w % 256) :: beBytes w n

/-- one field of `struct.pack` (standard sizes, big endian): `struct.error` outside the range of the format character -/
def packField (c : Char) (v : Int) : Except Err (List UInt8) :=
  let signed (w : Nat) : Except Err (List UInt8) :=
    if -(256 ^ w / 2 : Int) ≤ v ∧ v < (256 ^ w / 2 : Int) then .ok (beBytes w (v % (256 ^ w : Int)).toNat) else .error .structError
  let unsigned (w : Nat) : Except Err (List UInt8) :=
    if 0 ≤ v ∧ v < (256 ^ w : Int) then .ok (beBytes w v.toNat) else .error .structError
  match c with
  | 'B' => unsigned 1 | 'H' => unsigned 2 | 'L' => unsigned 4 | 'Q' => unsigned 8
  | 'b' => signed 1 | 'h' => signed 2 | 'l' => signed 4 | 'q' => signed 8
  | _ => .error .structError

/-- `struct.pack(">" ++ fmt, *args)` -/
def structPackL : List Char → List Int → Except Err (List UInt8)
  | [], [] => .ok []
  | c :: cs, v :: vs =>
    match packField c v with
    | .error e => .error e
    | .ok a => match structPackL cs vs with
      | .error e => .error e
      | .ok b => .ok (a ++ b)
  | _, _ => .error .structError

def structPack (fmt : String) (args : List Int) : Except Err (List UInt8) := structPackL fmt.toList args

/-- the `Ns` field of `struct.pack`: the bytes, cut or zero-padded to N -/
def packS (n : Nat) (b : List UInt8) : Except Err (List UInt8) := .ok (b.take n ++ List.replicate (n - b.length) 0)

/-- `struct.pack` field by field: the first field that does not fit raises -/
def packAll : List (Except Err (List UInt8)) → Except Err (List UInt8)
  | [] => .ok []
  | .error e :: _ => .error e
  | .ok a :: rest =>
    match packAll rest with
    | .error e => .error e
    | .ok b => .ok (a ++ b)

'''

STRUCT = ''''''

DIFFV = '''/-- value of `SeqNum.diff` (it cannot raise: every path of the translated body ends in `.ok`; `Equiv.lean` proves that) -/
def SeqNum_diffV (self other : Int) : Int :=
  match SeqNum_diff self other with
  | .ok v => v
  | .error _ => 0

'''


GROUPS = {      # group -> (kernels, imports): one Lean file and one equivalence module per group, so that a check only depends on its own
    "Seq": (["SeqNum_new", "SeqNum_diff", "SeqNum_add", "SeqNum_sub", "SeqNum_newer_than", "SeqNum_lt", "SeqNum_gt"], []),
    "Window": (["BitField_insert", "BitField_contains", "stale_datagram"], ["Seq"]),
    "Ack": (["ack_names"], ["Seq"]),
    "Size": (["Packet_overhead", "Packet_setMTU"], ["Seq"]),
    "Serial": (["serialize_int"], ["Seq"]),
    "Frag": (["FragmentSender_split"], ["Seq"]),
    "Header": (["PacketHeader_to_bytes", "Packet_total_size", "Packet_to_bytes_seals", "Packet_from_bytes_opens"], ["Seq"]),
}


def translate_one(fn, default_ns):
    ns = getattr(fn, "ns", None) or default_ns
    reads = READS.get(fn.lean, [])
    py_params = list(fn.params)
    for v, t in py_params + reads:
        fn.types[v] = t
    fn.out_state = list(fn.state)                                   # what the kernel assigns: returned
    fn.state = fn.out_state + [v for v, _ in reads if v not in fn.out_state]   # everything that is a variable, not a constant
    fn.all_binders = py_params + reads
    tr = Tr(fn, ns, CALLEES)
    src = textwrap.dedent(inspect.getsource(fn.obj))
    fdef = ast.parse(src).body[0]
    if not isinstance(fdef, ast.FunctionDef):
        raise Unsupported("%s: not a function" % fn.lean)
    names = [a.arg for a in fdef.args.args if a.arg != "cls"]
    want = [p for p, _ in py_params]
    if "self" in names and "self" not in want:
        names.remove("self")
    if fn.extract is None and names != want:
        raise Unsupported("%s: parameters are %s, the translator expects %s" % (fn.lean, names, want))
    stmts = list(fdef.body) if fn.extract is None else fn.extract(fdef)
    for node in [x for st in stmts for x in ast.walk(st)]:
        if isinstance(node, (ast.Assign, ast.AugAssign)):
            for t in (node.targets if isinstance(node, ast.Assign) else [node.target]):
                if isinstance(t, ast.Attribute):
                    ch = tr.attr_chain(t)
                    if ch is None or tr.var_of(ch) not in fn.out_state:
                        raise Unsupported("%s assigns %s, which is not declared as its state" % (fn.lean, ch))
    body = tr.block(stmts, 1)
    binders = " ".join("(%s : %s)" % (p, "Int" if t == "Len" else t) for p, t in py_params + reads)
    rty = ([fn.ret] if fn.ret is not None else []) + [("Int" if fn.types.get(v, "Int") == "Len" else fn.types.get(v, "Int")) for v in fn.out_state]
    text = "".join(tr.loops) + "/-- %s -/\ndef %s %s : Except Err (%s) :=\n%s\n\n" % (fn.doc, fn.lean, binders, " × ".join(rty), body)
    if fn.lean == "SeqNum_diff":
        text += DIFFV
    return text, hashlib.sha1(src.encode()).hexdigest()[:12]


def generate(repo):
    """group -> {"text": Lean source | None, "digests": {...}, "error": str | None}"""
    sys.path.insert(0, repo)
    import mpgameserver.connection as C
    import mpgameserver.serializable as Z
    assert os.path.realpath(C.__file__).startswith(os.path.realpath(repo)), (C.__file__, repo)
    assert os.path.realpath(Z.__file__).startswith(os.path.realpath(repo)), (Z.__file__, repo)
    byname = {fn.lean: fn for fn in kernels(C, Z)}
    res = {}
    for g, (names, imports) in GROUPS.items():
        out = ["".join("import MpgsModel.Generated.%s\n" % i for i in imports)]
        if g == "Seq":
            out.append(PRELUDE)
        else:
            out.append("/- GENERATED by harness/translate.py from the working tree under test - do not edit. -/\nnamespace Mpgs.Gen\n\n")
        digests, err = {}, None
        for n in names:
            try:
                text, dg = translate_one(byname[n], vars(C))
            except Unsupported as e:
                err = "%s: %s" % (n, e)
                break
            out.append(text)
            digests[n] = dg
        out.append("end Mpgs.Gen\n")
        res[g] = {"text": None if err else "".join(out), "digests": digests, "error": err}
    return res


def regenerate(repo, verif, groups=None):
    """rewrites lean/MpgsModel/Generated/<Group>.lean for every group; returns group -> {"rewritten", "digests", "error"}"""
    res = generate(repo)
    d = os.path.join(verif, "lean", "MpgsModel", "Generated")
    os.makedirs(d, exist_ok=True)
    rep = {}
    for g, r in res.items():
        path = os.path.join(d, g + ".lean")
        changed = False
        if r["text"] is not None:
            old = open(path).read() if os.path.exists(path) else None
            if old != r["text"]:
                tmp = path + ".tmp%d" % os.getpid()
                open(tmp, "w").write(r["text"])
                os.replace(tmp, path)
                changed = True
        rep[g] = {"rewritten": changed, "digests": r["digests"], "error": r["error"]}
    return rep


if __name__ == "__main__":
    verif = os.path.dirname(os.path.dirname(os.path.abspath(__file__)))
    repo = os.environ.get("VERIF_REPO", "/repo")
    if len(sys.argv) > 1 and sys.argv[1] == "--print":
        for g, r in generate(repo).items():
            print("-- ======== %s %s" % (g, r["error"] or ""))
            print(r["text"] or "")
    else:
        for g, r in regenerate(repo, verif).items():
            print("Generated/%s.lean %s %s" % (g, "rewritten" if r["rewritten"] else "unchanged", r["error"] or ""))
