"""
Deterministic driver of the REAL server loop (UdpServerThread.run) on the harness thread, with real client connections
(ClientServerConnection objects driven through connlib.CaseRun), under the virtual clock of connlib.Real.

How one real loop iteration lines up with one `it` op of the model (Driver/Conn.lean / Model/Server.lean):
  [queued datagrams at clock tq] -> handler.update (the harness sets the clock to ts here) -> sweeps + sends at ts
  -> thread.send(...) is called exactly once at the end of every iteration: that is the harness's end-of-iteration hook;
  it records the iteration, asks the scenario for the next one, injects its batch through the real entry point
  (TwistedServer.datagramReceived) and sets the clock to the next tq.
The condition variable of the thread is replaced by a stub (single-threaded: a blocked wait is answered with a dummy queue
item, exactly what the repository's own tests do to wake the thread).
"""
import struct
import types

from harness import core, connlib

TICK = connlib.TICK


class StopLoop(Exception):
    pass


class ServerRun:
    def __init__(self, real, cfg, scenario):
        """scenario: generator; yields dicts {tq, ts, items:[(addr, bytes, spec)], acts:[...]} and receives the result of the
        previous iteration via send()"""
        core.use_repo()
        import mpgameserver.server as S
        import mpgameserver.context as X
        import mpgameserver.twisted as TW
        from mpgameserver.handler import EventHandler
        self.real, self.S, self.X, self.TW = real, S, X, TW
        real.bind_clock()
        C = real.C
        self.C = C
        run = self
        self.events = []          # events of the current iteration
        self.acts = []            # handler script of the current iteration
        self.ids = {}             # id(conn object) -> ordinal, strong refs kept in self.objs
        self.objs = []
        self.draw_script = []     # forced urandom(4) outputs (ints), else real randomness
        self.draws = []           # draws made while the current item was handled
        self.hs_calls = []        # handshake handler calls in order: dicts

        class Handler(EventHandler):
            def act(self, client, what):
                a = run.acts.pop(0) if run.acts else "ok"
                if client is not None:
                    if a.startswith("echo"):
                        client.send(b"echo")
                    elif a.startswith("disc"):
                        client.disconnect()
                    elif a == "kick" and not run.ctxt._active:
                        # "player left: kick the opponents" - in the shutdown phase only, where the model needs no notion of it (every
                        # pool entry gets its disconnect event whatever its status, and nothing is sent any more); while the loop runs
                        # "kick" is a no-op in the per-client handlers, on both sides
                        for other in list(run.ctxt.connections.values()):
                            if other is not client:
                                other.disconnect()
                elif a == "kick":
                    # handler.update: "end of the round", every connected client is disconnected by the server (model: kickAll)
                    for c in list(run.ctxt.connections.values()):
                        c.disconnect()
                if a.endswith("aise"):
                    raise RuntimeError("handler script: raise in " + what)

            def starting(self):
                pass

            def connect(self, client):
                run.events.append("connect:%d:%s:%d:%d" % (run.oid(client), client.addr[0], client.addr[1], client.token))
                self.act(client, "connect")

            def handle_message(self, client, seqnum, msg=b""):
                run.events.append("msg:%d:%d:%s" % (run.oid(client), int(seqnum), connlib.digest(msg)))
                self.act(client, "handle_message")

            def disconnect(self, client):
                run.events.append("disc:%d" % run.oid(client))
                self.act(client, "disconnect")

            def update(self, delta_t):
                run.events.append("update")
                real.now = run.cur["ts"]
                self.act(None, "update")

            def shutdown(self):
                run.events.append("shutdown")

        self.ctxt = X.ServerContext(Handler(), real.server_ctxt("good").server_root_key)
        self.ctxt.setKeepAliveInterval(cfg["ka"] / TICK)
        self.ctxt.setMessageTimeout(cfg["ot"] / TICK)
        self.ctxt.setConnectionTimeout(cfg["ct"] / TICK)
        self.ctxt.setTempConnectionTimeout(cfg["tt"] / TICK)
        # WHEN the block list is installed must not matter ("for every block list"): before the server objects exist, after they
        # exist, as a replacement of an earlier list, or by adding to the context's own set in place
        blocked = set(str(ip) for ip in cfg["block"])
        mode = cfg.get("block_mode", "before")
        if mode == "before":
            self.ctxt.setBlockList(blocked)
        elif mode == "replace":
            self.ctxt.setBlockList({"250", "251"})
        self.sock_out = []

        class Sock:
            def sendto(self, datagram, addr):
                run.sock_out.append((addr, datagram))
        self.thread = S.UdpServerThread(Sock(), self.ctxt)
        self.tw = TW.TwistedServer(self.ctxt, ("0.0.0.0", 1), install_signals=False)
        self.tw.thread = self.thread
        if mode in ("after", "replace"):
            self.ctxt.setBlockList(blocked)
        elif mode == "inplace":
            self.ctxt.blocklist.update(blocked)

        class CV:                                  # stands in for threading.Condition (single-threaded)
            def wait(self_cv, timeout=None):
                if not run.thread.queue:
                    run.thread.queue.append((("0", 0), None, b""))     # what the repo's own tests do to wake the loop

            def notify_all(self_cv):
                pass
        self.thread.cv_queue = CV()

        # end-of-iteration hook
        orig_send = self.thread.send

        def send_hook(seq):
            orig_send(seq)
            run.end_iteration()
        self.thread.send = send_hook

        # deterministic environment of server.py / context.py
        S.time = connlib.__dict__.get("_VT") or types.SimpleNamespace(time=lambda: real.now / TICK, monotonic=lambda: real.now / TICK,
                                                                    perf_counter=lambda: real.now / TICK, sleep=lambda *a: None)
        S.sleep = lambda *a, **k: None
        import os as _os

        def urandom(n):
            if n == 4:
                v = run.draw_script.pop(0) if run.draw_script else struct.unpack(">L", _os.urandom(4))[0]
                run.draws.append(v)
                return struct.pack(">L", v)
            return _os.urandom(n)
        X.os = types.SimpleNamespace(urandom=urandom)

        # handshake handler calls of server-side connections (class level: the loop creates the objects itself)
        if not getattr(C.ServerClientConnection, "_verif_srv_wrapped", False):
            for nm in ("_recvClientHello", "_recvChallengeResponse"):
                orig = getattr(C.ServerClientConnection, nm)

                def wrapped(conn, data, _o=orig, _n=nm):
                    rec = {"name": _n, "addr": conn.addr, "exc": None}
                    cur = ServerRun.current
                    if _n == "_recvChallengeResponse":
                        other = conn.ctxt.temp_connections.get(conn.addr)
                        rec["temptok"] = other.token if other is not None else None
                        try:
                            rec["chal"] = int(C.Serializable.loadb(data).token)
                        except Exception:
                            rec["chal"] = None
                    nout = len(conn.outgoing_messages)
                    connlib.Real.capture.update(sh=None, key=None, tok=None)
                    try:
                        r = _o(conn, data)
                    except Exception as e:
                        rec["exc"] = type(e).__name__
                        if cur is not None:
                            cur.hs_calls.append(rec)
                        raise
                    if _n == "_recvClientHello":
                        cap = connlib.Real.capture
                        if cap["sh"] is not None:       # computed; sent unless the hello was shorter than the reply (the model decides)
                            rec["ok"] = (cap["key"].hex(), cap["sh"].hex(), cap["tok"])
                        else:
                            rec["ok"] = None
                    if cur is not None:
                        cur.hs_calls.append(rec)
                    return r
                setattr(C.ServerClientConnection, nm, wrapped)
            orig_init = C.ServerClientConnection.__init__

            def init(conn, *a, **k):
                orig_init(conn, *a, **k)
                if ServerRun.current is not None:
                    ServerRun.current.oid(conn)
                    # the one non-dyadic constant (1/60 s): overwritten on the instance so that float comparisons are exact
                    conn.send_interval = 16 / TICK
            C.ServerClientConnection.__init__ = init
            C.ServerClientConnection._verif_srv_wrapped = True
        ServerRun.current = self
        self.scenario = scenario
        self.records = []          # finished iterations
        self.cur = None

    current = None

    def oid(self, obj):
        k = id(obj)
        if k not in self.ids or self.objs[self.ids[k]] is not obj:
            self.ids[k] = len(self.objs)
            self.objs.append(obj)
        return self.ids[k]

    # ------------------------------------------------------------------ pools
    def pool(self, d):
        return "[" + ";".join("%s:%d>%d:%d:%d" % (a[0], a[1], self.oid(c), c.status.value, c.token) for a, c in d.items()) + "]"

    def register_new(self):
        # object ordinals follow creation order: temp pool first (new objects are born there)
        for c in list(self.ctxt.temp_connections.values()) + list(self.ctxt.connections.values()):
            self.oid(c)

    # ------------------------------------------------------------------ iteration boundaries
    def inject(self, spec):
        """put the batch of an iteration into the thread's queue through the real entry point; returns per-item entry results"""
        self.cur = spec
        self.acts = list(spec["acts"])
        self.events = []
        self.sock_out = []
        self.hs_calls = []
        self.draws_by_item = []
        self.real.now = spec["tq"]
        self.draw_script = list(spec.get("draws", []))
        accepted = []
        for addr, d, _ in spec["items"]:
            n0 = len(self.thread.queue)
            self.tw.datagramReceived(d, addr)
            accepted.append(len(self.thread.queue) > n0)
        spec["accepted"] = accepted

    def end_iteration(self):
        if self.warm:
            # the loop's very first iteration runs before it has fetched anything: not part of the case
            self.warm = False
            self.inject(self.first)
            return
        self.register_new()
        rec = dict(self.cur)
        rec["events"] = list(self.events)
        rec["sends"] = list(self.sock_out)
        rec["conns"] = self.pool(self.ctxt.connections)
        rec["temps"] = self.pool(self.ctxt.temp_connections)
        rec["hs_calls"] = list(self.hs_calls)
        rec["view"] = {}
        for pool_name, pool in (("conns", self.ctxt.connections), ("temps", self.ctxt.temp_connections)):
            for a, c in pool.items():
                rec["view"]["%s:%d" % a] = {"pool": pool_name, "status": c.status.value, "token": c.token, "oid": self.oid(c),
                                            "key": c.session_key_bytes.hex() if c.session_key_bytes else None}
        rec["draws_made"] = list(self.draws)
        self.draws = []
        self.records.append(rec)
        try:
            nxt = self.scenario.send(rec)
        except StopIteration:
            nxt = None
        if nxt is None or nxt.get("stop"):
            self.stop_acts = (nxt or {}).get("acts", [])
            self.ctxt._active = False
            self.cur = {"tq": self.real.now, "ts": self.real.now, "items": [], "acts": []}
            self.acts = list(self.stop_acts)
            self.events = []
            return
        self.inject(nxt)

    def run(self):
        self.first = next(self.scenario)
        self.warm = True
        self.cur = {"tq": self.first["tq"], "ts": self.first["tq"], "items": [], "acts": []}
        self.acts = []
        self.real.now = self.first["tq"]
        self.thread.run()                 # the unmodified loop, on this thread
        self.shutdown_events = list(self.events)
        ServerRun.current = None
        return self.records


# ======================================================================= scenarios

def fmt_events(rec):
    evs = ["drop:%s:%d" % (a[0], a[1]) for (a, _d, _s), ok in zip(rec["items"], rec["accepted"]) if not ok]
    evs += rec["events"]
    for addr, d in rec["sends"]:
        evs.append("send:%s:%d:%d:%d:%d:%d" % (addr[0], addr[1], d[12], struct.unpack(">H", d[8:10])[0], d[15], len(d)))
    return evs


def canon_events(evs):
    """same projection for both sides: exceptions contained by the loop are not observable from outside (logging only);
    sends are handed to the socket after both sweeps"""
    evs = [e for e in evs if not e.startswith("caught:")]
    return [e for e in evs if not e.startswith("send:")] + [e for e in evs if e.startswith("send:")]


def hello_payload(C, conn):
    """a CLIENT_HELLO message body of the size the server expects at the current MTU"""
    m = C.HandshakeClientHelloMessage()
    m.client_pubkey = conn.session_key.getPublicKey()
    m.client_version = conn.version
    return m.dumpb()


def short_hello(real, rng, tq):
    """a CLIENT_HELLO that is well formed in every respect (magic, count, header length, CRC, genuine key, version) except that its
    random padding is cut short or absent: only the padding makes a hello at least as large as the reply it asks for"""
    C = real.C
    import io
    import mpgameserver.serializable as S
    tmp = C.ClientServerConnection(("x", 1))
    tmp.clock = lambda: real.now / TICK
    tmp._sendClientHello()
    pkt = tmp._build_packet()
    d = tmp._encode_packet(pkt)
    body = d[20:-4]                      # message seq (2) + type id (2) + key + version + padding
    stream = io.BytesIO(body[4:])
    S.deserialize_value(stream)
    S.deserialize_value(stream)
    used = 4 + stream.tell()
    pad = len(body) - used
    keep = rng.choice([0, 0, 1, pad // 2, pad - 1, max(0, pad - 100)])
    nb = body[:used + keep]
    hb = d[:13] + struct.pack(">H", len(nb)) + d[15:20]
    out = hb + nb
    return out + struct.pack(">L", real.crypto.crc32(out))


def gen_server_case(real, rng, cid, n_iter=50, n_clients=3, hostile=0.3, mtu=1500, act_p=0.2, collide=0.3, block=(66,),
                    cfg=None, silent=0.03, leave=0.03, stop_early=0.1, loss=0.1, dup_next=0.0, spawn=0.3, rechal=0.03, stack=0.0):
    """one server history generated while the REAL loop runs; returns (case lines, outputs, records, client log)"""
    C = real.C
    cfg = dict(cfg or {"ka": 96, "ot": 1024, "ct": rng.choice([2048, 5120]), "tt": rng.choice([1024, 2048])})
    cfg["block"] = list(block)
    cfg["block_mode"] = rng.choice(["before", "after", "replace", "inplace"])
    lines = ["case %s" % cid, "mtu %d" % mtu,
             "scfg ka=%d ot=%d ct=%d tt=%d block=%s" % (cfg["ka"], cfg["ot"], cfg["ct"], cfg["tt"], ",".join(str(b) for b in block) or "-")]
    outs = []
    log = []
    crun = connlib.CaseRun(real, log)
    crun.exec("mtu %d" % mtu)
    crun.eps["S"] = {"conn": None, "emits": []}

    def emit(line):
        o = crun.exec(line)
        lines.append(crun.last_line)
        outs.extend(o)
        return o

    clients = {}      # name -> dict(addr, phase, gen)
    gen_no = [0]
    tokens_seen = []

    def new_client(slot):
        gen_no[0] += 1
        name = "c%d_%d" % (slot, gen_no[0])
        emit("new %s csc" % name)
        emit("set %s pinned=01 ccb=0 si=16 ka=96 ot=1024 tt=2048" % name)
        clients[slot] = {"name": name, "addr": (str(10 + slot), 5000 + slot), "phase": "new", "idle": 0, "born": None}
        everyone.append(clients[slot])
        return clients[slot]

    everyone = []
    again = []        # datagrams the network delivers a second time, one iteration later

    def scenario():
        t = connlib.BASE_T + rng.randint(0, 2000)
        emit("now %d" % t)
        srv = ServerRun.current
        for k in range(n_iter):
            tq = t
            ts = t + rng.choice([0, 1, 3])
            items = list(again)
            del again[:]
            late = []         # items that stay behind the rest of the batch
            kick = False
            # ---- clients act
            for slot in range(n_clients):
                cl = clients.get(slot)
                if cl is None:
                    if rng.random() < spawn:
                        cl = new_client(slot)
                    else:
                        continue
                name = cl["name"]
                conn = crun.eps[name]["conn"]
                if cl["phase"] == "new":
                    emit("hello %s t=%d" % (name, tq))
                    cl["phase"] = "up"
                    cl["born"] = k
                elif cl["phase"] == "silent":
                    cl["idle"] += 1
                    em = crun.eps[name]["emits"]
                    if em and rng.random() < 0.25:
                        # while the client is silent somebody keeps delivering copies of its old datagrams (duplicates inside the window,
                        # stale ones outside it): they authenticate but are not news - the client must still be dropped on time
                        kk = rng.randrange(max(0, len(em) - 40), len(em))
                        items.append((cl["addr"], em[kk], "@%s:%d" % (name, kk)))
                    if cl["idle"] > rng.choice([30, 200, 400]):
                        clients[slot] = None          # the address may be used again by a fresh client
                    continue
                if cl["phase"] == "up":
                    emit("cupd %s t=%d" % (name, tq))
                    if conn.session_key_bytes and not cl.get("keyed"):
                        cl["keyed"] = True
                        hp = hello_payload(C, conn)
                        n = min(4, (C.Packet.RECV_SIZE - 36) // (5 + len(hp)))
                        if n >= 2 and rng.random() < stack:
                            # the peer holds the session key but never answers the challenge: ONE sealed datagram of type
                            # CHALLENGE_RESP carrying n CLIENT_HELLO messages, then silence
                            if rng.random() < 0.4:
                                # ... or n application messages: they are queued on a connection that is never promoted and must
                                # never reach the handler (no connect event, no message event)
                                ap = [bytes(rng.getrandbits(8) for _ in range(rng.choice([1, 4, 20]))) for _ in range(n)]
                                body = b"".join(struct.pack(">HHB", len(x), 100 + i, C.PacketType.APP.value) + x for i, x in enumerate(ap))
                            else:
                                body = b"".join(struct.pack(">HHB", len(hp), 100 + i, C.PacketType.CLIENT_HELLO.value) + hp for i in range(n))
                            items.append((cl["addr"], None, "!3,%d,%d,%d,%d,%d:%s:%s" % (
                                (int(conn.seq_sending) % 65535) + 1, int(conn.bitfield_pkt.current_seqnum), conn.bitfield_pkt.bits,
                                tq // 1024, n, body.hex(), conn.session_key_bytes.hex())))
                            cl["phase"] = "silent"
                            continue
                    if conn.status.value == 2 and rng.random() < 0.5:
                        emit("send %s len=%d seed=%d retry=%d cb=-" % (name, rng.choice([4, 8, 40, 300, 1500]), rng.randint(1, 10 ** 6),
                                                                       rng.choice([0, 0, -1])))
                    if conn.status.value == 2 and rng.random() < leave:
                        emit("disc %s cb=1" % name)
                        cl["phase"] = "leaving"
                    elif rng.random() < silent:
                        cl["phase"] = "silent"
                        continue
                    elif conn.status.value in (4, 5) and cl["phase"] == "up" and rng.random() < 0.3:
                        clients[slot] = None
                        continue
                o = emit("build %s t=%d" % (name, tq))
                if o and o[0].startswith("pkt"):
                    if o[0].startswith("pkt ty=3 "):
                        cl["chal_out"] = True        # the client's own challenge response has left
                    kk = len(crun.eps[name]["emits"]) - 1
                    d = crun.eps[name]["emits"][kk]
                    if rng.random() >= loss:        # the network may lose it
                        items.append((cl["addr"], d, "@%s:%d" % (name, kk)))
                        if rng.random() < 0.08:     # ... or duplicate it
                            items.append((cl["addr"], d, "@%s:%d" % (name, kk)))
                        if rng.random() < dup_next:  # ... with the copy arriving one iteration later
                            again.append((cl["addr"], d, "@%s:%d" % (name, kk)))
                if cl["phase"] == "up" and conn.status.value == 2 and conn.session_key_bytes and cl.get("chal_out") and rng.random() < rechal:
                    # the (authenticated) client repeats its challenge response in a fresh datagram, right behind its other traffic
                    # (only once its own answer has left: a second, different answer that overtakes the first is a client that breaks
                    # the protocol against itself - the server then rejects the late original together with what travels with it)
                    ss, sm = (int(conn.seq_sending) % 65535) + 1, (int(conn.seq_message) % 65535) + 1
                    emit("set %s ss=%d sm=%d" % (name, ss, sm))
                    chal = C.HandshakeClientChallengeResponseMessage()
                    chal.token = conn.token
                    pt = struct.pack(">H", sm) + chal.dumpb()
                    late.append((cl["addr"], None, "!3,%d,%d,%d,%d,1:%s:%s" % (ss, int(conn.bitfield_pkt.current_seqnum), conn.bitfield_pkt.bits,
                                                                            tq // 1024, pt.hex(), conn.session_key_bytes.hex())))
                    kick = kick or rng.random() < 0.6
                if cl["phase"] == "up" and conn.status.value == 2 and conn.session_key_bytes and rng.random() < stack * 0.15:
                    # a connected client sends CLIENT_HELLO messages under its session key (an attempt to re-key / be answered again),
                    # in a fresh datagram behind its other traffic, and carries on
                    hp = hello_payload(C, conn)
                    if 36 + 2 * (5 + len(hp)) <= C.Packet.RECV_SIZE:
                        ss, sm = (int(conn.seq_sending) % 65535) + 1, (int(conn.seq_message) % 65535) + 1
                        sm2 = (sm % 65535) + 1
                        emit("set %s ss=%d sm=%d" % (name, ss, sm2))
                        body = b"".join(struct.pack(">HHB", len(hp), q, C.PacketType.CLIENT_HELLO.value) + hp for q in (sm, sm2))
                        late.append((cl["addr"], None, "!%d,%d,%d,%d,%d,2:%s:%s" % (
                            C.PacketType.CLIENT_HELLO.value, ss, int(conn.bitfield_pkt.current_seqnum), conn.bitfield_pkt.bits,
                            tq // 1024, body.hex(), conn.session_key_bytes.hex())))
                if cl["phase"] == "leaving":
                    cl["phase"] = "silent"
            # ---- hostile datagrams
            while rng.random() < hostile:
                r = rng.random()
                if r < 0.25:
                    n = rng.choice([0, 1, 19, 20, 21, 24, 36, 100, rng.randint(0, 2000)])
                    d = bytes(rng.getrandbits(8) for _ in range(n))
                    addr = (str(rng.choice([66, 90, 91, 10, 11])), rng.randint(1, 9))
                elif r < 0.5:
                    body = bytes(rng.getrandbits(8) for _ in range(rng.choice([0, 4, 16, 20, 100])))
                    hdr = b"FSOS" + struct.pack(">LHHBHBL", tq // 1024, rng.randint(0, 65535), rng.randint(0, 65535), rng.randint(0, 9),
                                                rng.choice([0, len(body), 65535]), rng.choice([0, 1, 2, 255]), rng.getrandbits(32))
                    d = hdr + body
                    addr = (str(rng.choice([66, 90, 10, 11, 12])), rng.choice([7, 5000, 5001, 5002]))
                elif r < 0.75 and any(crun.eps[c["name"]]["emits"] for c in clients.values() if c):
                    # spoofed source address: a damaged or stale copy of a genuine client datagram
                    cl = rng.choice([c for c in clients.values() if c and crun.eps[c["name"]]["emits"]])
                    em = crun.eps[cl["name"]]["emits"]
                    kk = rng.randrange(len(em))
                    d = em[kk]
                    how = rng.choice(["flip", "trunc", "ext", "stale", "retype"])
                    if how == "stale":
                        # an unmodified old datagram (replay, possibly from another address): refer to the emission itself
                        addr = cl["addr"] if rng.random() < 0.7 else (str(90), 7)
                        items.append((addr, d, "@%s:%d" % (cl["name"], kk)))
                        continue
                    if how == "flip":
                        i = rng.randrange(len(d))
                        d = d[:i] + bytes([d[i] ^ (1 << rng.randrange(8))]) + d[i + 1:]
                    elif how == "trunc":
                        d = d[:rng.randrange(len(d))]
                    elif how == "ext":
                        d = d + b"\x00" * rng.randint(1, 9)
                    elif how == "retype":
                        d = d[:12] + bytes([(d[12] + rng.randint(1, 7)) % 8]) + d[13:]     # always a different type
                    addr = cl["addr"] if rng.random() < 0.7 else (str(90), 7)
                elif r < 0.8 and crun.eps["S"]["emits"] and any(c for c in clients.values()):
                    # reflection: a datagram the SERVER sent, thrown back at it from a client's (spoofed) address
                    kk = rng.randrange(max(0, len(crun.eps["S"]["emits"]) - 6), len(crun.eps["S"]["emits"]))
                    cl = rng.choice([c for c in clients.values() if c])
                    items.append((cl["addr"], crun.eps["S"]["emits"][kk], "@S:%d" % kk))
                    continue
                elif r < 0.85:
                    d = short_hello(real, rng, tq)
                    addr = (str(rng.choice([66, 92, 93, 94])), rng.randint(1, 3))
                else:
                    # a well-formed hello from a stranger (possibly block-listed), truncated or not
                    tmp = C.ClientServerConnection(("x", 1))
                    tmp.clock = lambda: real.now / TICK
                    tmp._sendClientHello()
                    pkt = tmp._build_packet()
                    d = tmp._encode_packet(pkt)
                    if rng.random() < 0.4:
                        d = d[:rng.choice([len(d) - 1, len(d) - 40, 200, 30])]
                    addr = (str(rng.choice([66, 92, 93, 94])), rng.randint(1, 3))
                    fresh = [c for c in clients.values() if c and c["born"] is not None and k - c["born"] <= 3]
                    if fresh and rng.random() < 0.5:
                        # ... or forged in the name of a client whose handshake is in flight: a complete, CRC-valid hello with another
                        # key from the (spoofed) address of a half-open connection
                        addr = rng.choice(fresh)["addr"]
                items.append((addr, d, d.hex() or "-"))
            items = [(a, real.craft(sp, True) if d is None else d, sp) for a, d, sp in items]
            rng.shuffle(items)
            for addr, _d, spec_s in late:
                items.append((addr, real.craft(spec_s, True), spec_s))
            # keep at most one genuine datagram per address and iteration in front of its duplicates (oracle association)
            acts = [rng.choice(["raise", "echo", "disc", "echoRaise", "discRaise", "kick"]) if rng.random() < act_p else "ok" for _ in range(40)]
            if act_p > 0 and rng.random() < 0.02:
                acts = ["kick"] * 40         # whatever handler calls come first (no-ops), handler.update ends the round
            if kick:
                # the handler disconnects every client it hears from in this iteration
                acts = [rng.choice(["disc", "disc", "discRaise"]) for _ in range(40)]
            draws = []
            if tokens_seen and rng.random() < collide:
                # the random source repeats tokens that are in use (and the all-zero draw) before it yields a fresh value
                draws = [rng.choice(tokens_seen) & 0x3fffffff | rng.choice([0, 0x80000000]) for _ in range(rng.randint(1, 3))]
            spec = {"tq": tq, "ts": ts, "items": items, "acts": acts, "draws": draws}
            rec = yield spec
            # ---- the `it` line for the model, with the oracle values observed in this very iteration
            calls = list(rec["hs_calls"])
            dr = list(rec["draws_made"])
            by_addr = {}
            for call in calls:                      # at most one hello handler call per address and iteration reaches a handler
                if call["addr"] in by_addr:
                    continue
                orc, dws = "-", "-"
                if call["name"] == "_recvClientHello":
                    if call["exc"]:
                        orc = "ch:err"
                    elif call.get("ok"):
                        key, sh, tok = call["ok"]
                        orc = "ch:ok:%s:%s" % (key, sh)
                        mine = []
                        while dr:
                            v = dr.pop(0)
                            mine.append(v)
                            if ((v & 0x7fffffff) | 0x40000000) == tok:
                                break
                        dws = ",".join(str(v) for v in mine) or "-"
                        tokens_seen.append(tok)
                    else:
                        orc = "ch:ver:2"
                else:
                    orc = "cr:%s" % ("err" if call.get("chal") is None else call["chal"])
                by_addr[call["addr"]] = (orc, dws)
            parts = []
            for (addr, d, spec_s), ok in zip(rec["items"], rec["accepted"]):
                orc, dws = by_addr.get(addr, ("-", "-")) if ok else ("-", "-")
                parts.append("%s:%d|%s|%s|%s" % (addr[0], addr[1], spec_s, orc, dws))
            used = len(spec["acts"]) - len(srv.acts) if False else None
            lines.append("it tq=%d ts=%d acts=%s items=%s" % (tq, ts, ",".join(spec["acts"]), ";".join(parts) or "-"))
            outs.append("ev=%s conns=%s temps=%s" % (",".join(fmt_events(rec)) or "-", rec["conns"], rec["temps"]))
            # ---- what the server sent reaches the clients (mostly)
            for addr, d in rec["sends"]:
                crun.eps["S"]["emits"].append(d)
                kk = len(crun.eps["S"]["emits"]) - 1
                crun.key_of[("S", kk)] = None
                for cl in clients.values():
                    if cl and cl["addr"] == addr and cl["phase"] in ("up", "leaving") and rng.random() >= min(loss, 0.08):
                        emit("recv %s t=%d d=@S:%d" % (cl["name"], ts, kk))
            t = ts + rng.choice([8, 16, 17, 33, 50, 100, 300])
            if rng.random() < stop_early / max(1, n_iter):
                break
        stop_acts = [rng.choice(["ok", "raise", "kick", "kick"]) for _ in range(10)]
        if rng.random() < 0.6:
            stop_acts[0] = "kick"        # the very first disconnect handler of the shutdown kicks everybody else
        yield {"stop": True, "acts": stop_acts}

    sc = scenario()
    srv = ServerRun(real, cfg, sc)
    try:
        records = srv.run()
    finally:
        crun.close()
    # final view of both sides (for the agreement monitor): every client object ever created, and the server's pools
    fin = {"op": "final", "iterations": len(records), "clients": [], "server": {}}
    for cl in everyone:
        conn = crun.eps[cl["name"]]["conn"]
        fin["clients"].append({"name": cl["name"], "addr": cl["addr"], "born": cl["born"], "phase": cl["phase"],
                               "current": any(c is cl for c in clients.values()), "status": conn.status.value, "token": conn.token,
                               "key": conn.session_key_bytes.hex() if conn.session_key_bytes else None})
    fin["server"] = records[-1]["view"] if records else {}
    log.append(fin)
    stop_acts = getattr(srv, "stop_acts", [])
    lines.append("stop acts=%s" % (",".join(stop_acts) or "-"))
    outs.append("ev=%s" % ",".join(srv.shutdown_events))
    lines.append("end")
    return lines, outs, records, log


def halfopen_monitor(case, recs, ctx):
    """C01 at the server loop: a datagram that is not sealed under the session key of a half-open connection does not replace or alter
    that connection - same object, same key, same token after an iteration in which nothing genuine arrived from its address (it may be
    promoted or expire, not be swapped)"""
    prev = {}
    for i, rec in enumerate(recs):
        view = rec.get("view", {})
        genuine = set("%s:%d" % addr for (addr, d, spec), ok in zip(rec["items"], rec["accepted"]) if spec.startswith(("@", "!")))
        for a, was in prev.items():
            now = view.get(a)
            if was["pool"] != "temps" or now is None or a in genuine:
                continue
            if now["oid"] != was["oid"] or (now["pool"] == "temps" and (now["key"] != was["key"] or now["token"] != was["token"])):
                forged = [spec[:48] for (addr, d, spec), ok in zip(rec["items"], rec["accepted"]) if "%s:%d" % addr == a]
                ctx.failure("halfopen-connection-replaced", "iteration %d: the half-open connection of %s (object %d, token %d) was %s although "
                            "nothing sealed under its key arrived from that address (datagrams from it in this iteration: %s)" %
                            (i, a, was["oid"], was["token"], "replaced by object %d" % now["oid"] if now["oid"] != was["oid"] else
                             "given another key/token", forged), {"case": case, "at": len(case) - 2, "iteration": i})
                return True
        prev = view
    return False


def udp_server_entry(real, items, block, mode):
    """the second datagram entry point, `_UdpServer.run` (the reference socket loop of server.py): the scripted datagrams come out of a
    fake socket, the server thread is a recorder; returns the (addr, datagram) pairs it queued"""
    core.use_repo()
    import mpgameserver.server as S
    import mpgameserver.context as X
    from mpgameserver.handler import EventHandler
    ctxt = X.ServerContext(EventHandler(), real.server_ctxt("good").server_root_key)
    blocked = set(str(b) for b in block)
    if mode == "before":
        ctxt.setBlockList(blocked)
    elif mode == "replace":
        ctxt.setBlockList({"250", "251"})
    srv = S._UdpServer(ctxt, ("0.0.0.0", 1))
    if mode in ("after", "replace"):
        ctxt.setBlockList(blocked)
    elif mode == "inplace":
        ctxt.blocklist.update(blocked)
    queued = []
    feed = list(items)

    class Sock:
        def __init__(self, *a, **k):
            pass

        def setsockopt(self, *a):
            pass

        def bind(self, a):
            pass

        def fileno(self):
            return -1

        def close(self):
            pass

        def recvfrom(self, n):
            if not feed:
                ctxt._active = False
                raise ConnectionResetError("end of the script")
            addr, d = feed.pop(0)
            return d[:n], addr

    class Recorder:
        def __init__(self, sock, c):
            pass

        def start(self):
            pass

        def append(self, addr, hdr, datagram):
            queued.append((addr, datagram))
    saved = (S.socket, S.UdpServerThread)
    S.socket = types.SimpleNamespace(socket=Sock, AF_INET=0, SOCK_DGRAM=0, SOL_SOCKET=0, SO_REUSEADDR=0)
    S.UdpServerThread = Recorder
    try:
        srv.run()
    finally:
        S.socket, S.UdpServerThread = saved
    return queued


def udp_entry_monitor(real, rng, case, recs, block, ctx, cap=12):
    """both entry points decide alike: what TwistedServer.datagramReceived queued in the recorded run (compared with the model's `entry`
    there) is what `_UdpServer.run` queues for the same datagrams and block list, whenever the list was installed"""
    rs = [r for r in recs if r.get("items")]
    for rec in (rng.sample(rs, cap) if len(rs) > cap else rs):
        items = [(addr, d) for addr, d, _spec in rec["items"]]
        mode = rng.choice(["before", "after", "replace", "inplace"])
        want = [(addr, d) for (addr, d, _s), ok in zip(rec["items"], rec["accepted"]) if ok]
        try:
            got = udp_server_entry(real, items, block, mode)
        except Exception as e:
            ctx.failure("udp-entry-died", "_UdpServer.run let %s escape: %s" % (type(e).__name__, e), {"case": case, "at": len(case) - 2})
            return True
        ctx.count("udp-entry-datagrams", len(items))
        for addr, d in got:
            if addr[0] in set(str(b) for b in block):
                ctx.failure("blocklisted-datagram-queued", "_UdpServer.run queued a datagram from block-listed %s (block list installed: %s)" %
                            (addr, mode), {"case": case, "at": len(case) - 2, "datagram": d[:64].hex(), "mode": mode})
                return True
        if got != want:
            extra = [x for x in got if x not in want][:1]
            missing = [x for x in want if x not in got][:1]
            ctx.failure("entry-points-differ", "_UdpServer.run and TwistedServer.datagramReceived decide differently: %s" %
                        ("queued only by _UdpServer: %s %s..." % (extra[0][0], extra[0][1][:24].hex()) if extra else
                         "dropped only by _UdpServer: %s %s..." % (missing[0][0], missing[0][1][:24].hex()) if missing else "order differs"),
                        {"case": case, "at": len(case) - 2, "mode": mode})
            return True
    return False


def post(case, out_lines):
    """projection applied to model and implementation output alike"""
    ops = connlib.answering_ops_srv(case)
    res = []
    for op, o in zip(ops, out_lines):
        k = op.split()[0]
        if k in ("it", "stop"):
            head, _, rest = o.partition(" conns=")
            evs = head[3:].split(",") if head[3:] != "-" else []
            res.append("ev=%s%s" % (",".join(canon_events(evs)) or "-", (" conns=" + rest) if rest else ""))
        elif k in ("recv", "cupd", "hello", "send", "disc"):
            res.append(o)
        elif k == "build":
            res.append(" ".join(o.split()[:4]))
    if len(ops) != len(out_lines):
        res.append("#outputs=%d ops=%d" % (len(out_lines), len(ops)))
    return res

def honest_monitor(case, recs, log, ctx):
    """service to established clients: a genuine datagram of a client that was connected before this iteration, arriving for the first
    time and in order, is processed - every application message in it that the server has not delivered before reaches handle_message
    in this very iteration, whatever else is in the batch and whatever the handler does with the other events"""
    emissions = {}          # client name -> emission index -> [(msg seq, type, digest)]
    for r in log:
        if r.get("op") == "build" and r.get("pkt"):
            emissions.setdefault(r["e"], {})[r["pkt"]["k"]] = r["pkt"]["msgs"]
    conn_at = {}            # addr -> (oid, iteration of the connect event)
    name_of = {}            # oid -> client name
    newest = {}             # client name -> newest emission index delivered to the server
    seen_seq = {}           # oid -> message seqs handed to the handler
    addr_of = {}
    for i, rec in enumerate(recs):
        got = {}
        for e in rec["events"]:
            p = e.split(":")
            if p[0] == "msg":
                got.setdefault(int(p[1]), set()).add(int(p[2]))
        for (addr, d, spec), ok in zip(rec["items"], rec["accepted"]):
            if not ok or not spec.startswith("@"):
                continue
            name, k = spec[1:].split(":")
            k = int(k)
            if addr not in conn_at or conn_at[addr][1] >= i:
                continue
            oid = conn_at[addr][0]
            if name_of.get(oid) != name or k <= newest.get(name, -1):
                continue
            newest[name] = k
            if any(m[1] == 3 for m in emissions.get(name, {}).get(k, [])):
                # the client's challenge response reaching a connection that is already promoted: some other answer of this very client
                # (only it holds the key) got there first - not an honest client any more, the server owes that datagram nothing
                ctx.count("honest:late-challenge-response-skipped")
                continue
            want = [m[0] for m in emissions.get(name, {}).get(k, []) if m[1] == 6 and m[0] not in seen_seq.get(oid, set())]
            missing = [sq for sq in want if sq not in got.get(oid, set())]
            if missing:
                ctx.failure("honest-datagram-not-processed",
                            "iteration %d: datagram %s of a client connected since iteration %d arrived for the first time and in order, but "
                            "its application message(s) %s never reached handle_message (handler events of the iteration: %s)" %
                            (i, spec, conn_at[addr][1], missing[:5], [e for e in rec["events"] if not e.startswith("send")][:8]),
                            {"case": case, "at": len(case) - 2, "iteration": i})
                return
            ctx.count("honest:datagram-processed")
        for e in rec["events"]:
            p = e.split(":")
            if p[0] == "connect":
                oid, addr = int(p[1]), (p[2], int(p[3]))
                conn_at[addr] = (oid, i)
                addr_of[oid] = addr
                for (a2, _d, sp2), ok2 in zip(rec["items"], rec["accepted"]):
                    if a2 == addr and sp2.startswith("@"):
                        name_of[oid] = sp2[1:].split(":")[0]
                        newest[name_of[oid]] = max(newest.get(name_of[oid], -1), int(sp2.split(":")[1]))
            elif p[0] == "msg":
                seen_seq.setdefault(int(p[1]), set()).add(int(p[2]))
            elif p[0] == "disc":
                a = addr_of.get(int(p[1]))
                if a is not None and conn_at.get(a, (None,))[0] == int(p[1]):
                    del conn_at[a]

def once_monitor(case, recs, ctx):
    """at most once at the handler: over a whole run of the real loop no connection object hands the same message sequence number to
    handle_message twice - whatever is duplicated, replayed or stacked behind a challenge response"""
    seen = {}
    for i, rec in enumerate(recs):
        for e in rec["events"]:
            p = e.split(":")
            if p[0] != "msg":
                continue
            key = (p[1], p[2])
            if key in seen:
                ctx.failure("message-handed-to-handler-twice",
                            "iteration %d: connection #%s handed message %s to handle_message again (first in iteration %d); handler events "
                            "of the two iterations: %s / %s" % (i, p[1], p[2], seen[key],
                                                                 [x for x in recs[seen[key]]["events"] if not x.startswith("send")][:6],
                                                                 [x for x in rec["events"] if not x.startswith("send")][:6]),
                            {"case": case, "at": len(case) - 2, "iteration": i})
                return True
            seen[key] = i
            ctx.count("loop:message-handed-over-once")
    return False


def silence_monitor(case, recs, ctx):
    """dead peers are detected: a connected client from whose address nothing new has arrived for connection_timeout (copies of datagrams
    the server already has, damaged copies and forgeries do not count) has its disconnect event by the next sweep"""
    ct = None
    for l in case:
        if l.startswith("scfg "):
            for x in l.split():
                if x.startswith("ct="):
                    ct = int(x[3:])
    if ct is None:
        return
    conn = {}             # oid -> {"addr", "last": clock of the last iteration in which something new arrived}
    had = {}              # addr -> set of datagram specs already delivered from it
    for i, rec in enumerate(recs):
        fresh = set()
        for (addr, d, spec), ok in zip(rec["items"], rec["accepted"]):
            if not ok or not spec.startswith(("@", "!")):
                continue
            if spec in had.setdefault(addr, set()):
                continue
            if any(c["addr"] == addr for c in conn.values()):
                # only what reached an already connected client counts as "the server has it": a datagram that arrived during the
                # handshake was not processed, its later copy is new
                had[addr].add(spec)
            fresh.add(addr)
        for e in rec["events"]:
            p = e.split(":")
            if p[0] == "connect":
                conn[int(p[1])] = {"addr": (p[2], int(p[3])), "last": rec["tq"]}
            elif p[0] == "disc":
                conn.pop(int(p[1]), None)
        for oid, c in conn.items():
            if c["addr"] in fresh:
                c["last"] = rec["tq"]
        late = [(oid, rec["ts"] - c["last"]) for oid, c in conn.items() if rec["ts"] - c["last"] >= ct]
        if late:
            ctx.failure("silent-client-not-disconnected",
                        "iteration %d (sweep at %d): connection(s) %s still connected although nothing new has arrived from their address for "
                        ">= connection_timeout %d ticks (only copies of datagrams the server already had, or nothing)" %
                        (i, rec["ts"], late[:3], ct), {"case": case, "at": len(case) - 2, "iteration": i})
            return
    ctx.count("silence:cases-checked")
