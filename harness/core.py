"""
Shared machinery of ./check: Lean build + audit, line-protocol correspondence, monitors,
known findings, evidence.  Python 3.12 stdlib only (+ the repo's own deps for drive code).

Vocabulary
  case            a list of op lines (strings) starting with "case <id>"
  correspondence  the real code and the Lean model executed on the same case must print the
                  same canonical output lines
  monitor         an executable statement of the property itself on the REAL code; only used to
                  find a concrete failing input (never the basis of the claim)
"""
import hashlib
import json
import os
import random
import re
import subprocess
import sys
import time

HERE = os.path.dirname(os.path.abspath(__file__))
VERIF = os.path.dirname(HERE)
LEAN_DIR = os.path.join(VERIF, "lean")
REPO = os.environ.get("VERIF_REPO", "/repo")
GUARD = "MPGAMESERVER_VERIF"

ALLOWED_AXIOMS = {"propext", "Classical.choice", "Quot.sound"}
FORBIDDEN = re.compile(
    r"\bsorry\b|\badmit\b|^\s*axiom\s|native_decide|bv_decide|implemented_by|\bunsafe\s|maxHeartbeats\s+0\b",
    re.M)

TRUSTED_BASE = [
    "Lean 4.33.0 kernel (thorough tier: leanchecker re-check of the Props modules)",
    "axioms allowed: propext, Classical.choice, Quot.sound (audited with #print axioms on every run)",
    "hand-written Lean model of the anchored Python code, tied to /repo by the differential "
    "correspondence check of this run (generator quality bounds what it sees)",
    "CPython 3.12 semantics of struct/bytes/dict/sorted as mirrored by the model",
]


class LeanUnavailable(Exception):
    pass


def use_repo():
    """make `import mpgameserver` resolve to the tree under test and assert it did"""
    os.environ.setdefault(GUARD, "1")
    if sys.path[0] != REPO:
        sys.path.insert(0, REPO)
    import logging
    logging.disable(logging.CRITICAL)      # the library logs every dropped datagram / handler error
    import mpgameserver
    f = os.path.realpath(mpgameserver.__file__)
    assert f.startswith(os.path.realpath(REPO) + os.sep), (f, REPO)
    return mpgameserver


def strip_lean_comments(src):
    out = []
    i, n, depth = 0, len(src), 0
    in_str = False
    while i < n:
        if depth == 0 and not in_str and src.startswith("--", i):
            j = src.find("\n", i)
            i = n if j < 0 else j
            continue
        if not in_str and src.startswith("/-", i):
            depth += 1
            i += 2
            continue
        if depth > 0 and src.startswith("-/", i):
            depth -= 1
            i += 2
            continue
        if depth == 0:
            c = src[i]
            if c == '"' and (i == 0 or src[i - 1] != "\\"):
                in_str = not in_str
            out.append(c)
        elif src[i] == "\n":
            out.append("\n")
        i += 1
    return "".join(out)


def forbidden_scan():
    hits = []
    for root, _dirs, files in os.walk(LEAN_DIR):
        if ".lake" in root or os.path.basename(root) == "Audit":
            continue
        for f in files:
            if not f.endswith(".lean"):
                continue
            p = os.path.join(root, f)
            code = strip_lean_comments(open(p, encoding="utf-8").read())
            # string literals may legitimately contain words; drop them
            code = re.sub(r'"(?:[^"\\]|\\.)*"', '""', code)
            for m in FORBIDDEN.finditer(code):
                line = code.count("\n", 0, m.start()) + 1
                hits.append("%s:%d:%s" % (os.path.relpath(p, VERIF), line, m.group(0).strip()))
    return hits


def lake_build(targets=None, timeout=3000):
    cmd = ["lake", "build"] + (targets or [])
    t0 = time.time()
    try:
        p = subprocess.run(cmd, cwd=LEAN_DIR, capture_output=True, text=True, timeout=timeout)
    except subprocess.TimeoutExpired:
        return False, "lake build timed out", time.time() - t0
    ok = p.returncode == 0
    return ok, (p.stdout + p.stderr), time.time() - t0


def run_audit(prop_id, lean_modules, theorems, timeout=900):
    """#print axioms for each theorem; returns dict name -> list of axioms | None (missing)"""
    os.makedirs(os.path.join(LEAN_DIR, "Audit"), exist_ok=True)
    path = os.path.join(LEAN_DIR, "Audit", prop_id + ".lean")
    lines = ["import %s" % m for m in lean_modules]
    for name in theorems:
        lines.append("#print axioms %s" % name)
    with open(path, "w") as f:
        f.write("\n".join(lines) + "\n")
    try:
        p = subprocess.run(["lake", "env", "lean", path], cwd=LEAN_DIR, capture_output=True,
                           text=True, timeout=timeout)
    except subprocess.TimeoutExpired:
        return {name: None for name in theorems}, "audit timed out"
    out = p.stdout + p.stderr
    res = {name: None for name in theorems}
    # messages can wrap over several lines: join then scan
    flat = re.sub(r"\s+", " ", out)
    for name in theorems:
        m = re.search(r"'%s' depends on axioms: \[([^\]]*)\]" % re.escape(name), flat)
        if m:
            res[name] = [a.strip() for a in m.group(1).split(",") if a.strip()]
        elif re.search(r"'%s' does not depend on any axioms" % re.escape(name), flat):
            res[name] = []
    return res, out


# drivers that are also built as native executables (same Lean sources; 10-100x faster than --run)
NATIVE = {"Conn": "conn_driver"}
_native_ready = {}


def native_exe(driver):
    exe = NATIVE.get(driver)
    if not exe or os.environ.get("VERIF_NO_NATIVE"):
        return None
    if exe not in _native_ready:
        try:
            p = subprocess.run(["lake", "build", exe], cwd=LEAN_DIR, capture_output=True, text=True, timeout=1200)
            path = os.path.join(LEAN_DIR, ".lake", "build", "bin", exe)
            _native_ready[exe] = path if (p.returncode == 0 and os.path.exists(path)) else None
        except subprocess.TimeoutExpired:
            _native_ready[exe] = None
    return _native_ready[exe]


def run_lean_driver(driver, lines, timeout=600):
    """pipe op lines to the driver (native build if available, else `lake env lean --run Driver/<driver>.lean`)"""
    path = os.path.join("Driver", driver + ".lean")
    data = "\n".join(lines) + "\n"
    exe = native_exe(driver)
    cmd = [exe] if exe else ["lake", "env", "lean", "--run", path]
    try:
        p = subprocess.run(cmd, cwd=LEAN_DIR, input=data,
                           capture_output=True, text=True, timeout=timeout)
    except subprocess.TimeoutExpired:
        raise LeanUnavailable("driver %s timed out" % driver)
    if p.returncode != 0:
        raise LeanUnavailable("driver %s failed: %s" % (driver, (p.stderr or p.stdout)[-2000:]))
    return p.stdout.split("\n")[:-1] if p.stdout.endswith("\n") else p.stdout.split("\n")


def split_cases(out_lines):
    """model output -> {case id: [lines]} using the '#case <id>' markers"""
    res, cur = {}, None
    for ln in out_lines:
        if ln.startswith("#case "):
            cur = ln[6:].strip()
            res[cur] = []
        elif cur is not None:
            res[cur].append(ln)
    return res


def case_id(case):
    return case[0].split()[1]


def case_hash(case):
    return hashlib.sha1("\n".join(case[1:]).encode()).hexdigest()


class Ctx:
    def __init__(self, prop_id, tier, seed):
        self.prop = prop_id
        self.tier = tier
        self.seed = seed
        self.rng = random.Random(seed)
        self.lean_ok = True
        self.lean_problem = None
        self.evaluations = 0
        self.hashes_nontrivial = set()
        self.samples = []
        self.hist = {}
        self.disagreements = []      # dicts: layer, case, impl, model
        self.failures = []           # monitor failures: dicts kind, what, replay
        self.notes = {}
        self.layers = {}
        self.rules = []
        self.known_printed = []
        self.t0 = time.time()

    # ------------------------------------------------------------------ helpers
    def count(self, key, n=1):
        self.hist[key] = self.hist.get(key, 0) + n

    def scale(self, quick, thorough):
        return thorough if self.tier == "thorough" else quick

    def sample(self, obj, cap=6):
        if len(self.samples) < cap:
            self.samples.append(obj)

    def lean(self, driver, lines, timeout=900):
        if not self.lean_ok:
            raise LeanUnavailable(self.lean_problem or "lean build broken")
        return run_lean_driver(driver, lines, timeout)

    def failure(self, kind, what, replay):
        """a monitor saw the property fail on the real code for a concrete input"""
        if isinstance(replay, dict) and "case" in replay and "at" in replay:
            # keep only the prefix of the op sequence that leads to the failure
            c = replay["case"]
            k = replay["at"] + 2
            if k < len(c):
                replay = dict(replay, case=c[:k] + ["end"])
        self.failures.append({"kind": kind, "what": what, "replay": replay})

    # ------------------------------------------------------- correspondence
    def correspondence(self, layer, driver, cases, impl_fn, nontrivial=None, rule=None,
                       minimise=True, post=None):
        """
        cases: list of cases (list of lines, first 'case <id>', last 'end')
        impl_fn(case) -> list of output lines produced by the REAL code (one per op that
        answers). The model driver gets the very same lines.
        """
        if rule and rule not in self.rules:
            self.rules.append(rule)
        if post is not None:
            # the same projection is applied to the implementation's and the model's output
            raw_impl, raw_lean = impl_fn, self.lean
            impl_fn = lambda case: post(case, raw_impl(case))

            def lean_post(driver_, lines, timeout=900):
                # lines may hold several cases: project each case's block
                outs = raw_lean(driver_, lines, timeout)
                blocks, cur = [], None
                for ln in lines:
                    if ln.startswith("case "):
                        cur = [ln]
                        blocks.append(cur)
                    elif cur is not None:
                        cur.append(ln)
                by_id = split_cases(outs)
                res = []
                for b in blocks:
                    cid = case_id(b)
                    res.append("#case " + cid)
                    res.extend(post(b, by_id.get(cid, [])))
                return res
            self.lean = lean_post
            try:
                return self.correspondence(layer, driver, cases, impl_fn, nontrivial, rule, minimise, None)
            finally:
                self.lean = raw_lean
        lay = self.layers.setdefault(layer, {"cases": 0, "ops": 0, "disagreements": 0})
        impl_outs = {}
        all_lines = []
        for case in cases:
            cid = case_id(case)
            impl_outs[cid] = impl_fn(case)
            all_lines.extend(case)
            lay["cases"] += 1
            lay["ops"] += max(0, len(case) - 2)
        self.evaluations += len(cases)
        try:
            model = split_cases(self.lean(driver, all_lines))
        except LeanUnavailable as e:
            self.lean_ok = False
            self.lean_problem = str(e)
            lay["model_unavailable"] = str(e)[-500:]
            return []
        bad = []
        for case in cases:
            cid = case_id(case)
            mo = model.get(cid)
            io = impl_outs[cid]
            if mo != io:
                bad.append(case)
            else:
                if nontrivial is None or nontrivial(case, io):
                    self.hashes_nontrivial.add(case_hash(case))
                if len(self.samples) < 4 and len(case) <= 40 and self.rng.random() < 0.3:
                    self.samples.append({"layer": layer, "ops": case[1:-1][:30], "out": io[:30]})
        for case in bad[:5]:
            small = self._ddmin(driver, case, impl_fn) if minimise else case
            cid = case_id(small)
            try:
                mo = split_cases(self.lean(driver, small)).get(cid)
            except LeanUnavailable:
                mo = None
            io = impl_fn(small)
            self.disagreements.append({"layer": layer, "driver": driver, "case": small,
                                       "impl": io, "model": mo})
        lay["disagreements"] += len(bad)
        return bad

    def _ddmin(self, driver, case, impl_fn, budget=40):
        head, body, tail = case[0], case[1:-1], case[-1]

        def differs(cands):
            lines, outs = [], []
            for k, b in enumerate(cands):
                c = ["case m%d" % k] + b + [tail]
                lines.extend(c)
                try:
                    outs.append(impl_fn(c))
                except Exception:
                    outs.append(None)
            try:
                model = split_cases(self.lean(driver, lines))
            except LeanUnavailable:
                return [False] * len(cands)
            return [outs[k] is not None and model.get("m%d" % k) != outs[k] for k in range(len(cands))]

        n = 2
        rounds = 0
        t_end = time.time() + 45          # minimisation is a convenience: never let it eat the check's time budget
        while len(body) >= 2 and rounds < budget and time.time() < t_end:
            rounds += 1
            size = max(1, len(body) // n)
            chunks = [body[i:i + size] for i in range(0, len(body), size)]
            cands = [sum(chunks[:i] + chunks[i + 1:], []) for i in range(len(chunks))]
            if len(cands) > 24:
                break
            res = differs(cands)
            hit = [c for c, r in zip(cands, res) if r]
            if hit:
                body = min(hit, key=len)
                n = max(n - 1, 2)
            elif size == 1:
                break
            else:
                n = min(len(body), n * 2)
        return [head] + body + [tail]


# ---------------------------------------------------------------------- findings

def load_known():
    p = os.path.join(VERIF, "known_findings.json")
    if not os.path.exists(p):
        return []
    return json.load(open(p)).get("findings", [])


def write_replay(prop, seed, n, obj):
    d = os.path.join(VERIF, "replays")
    os.makedirs(d, exist_ok=True)
    rel = os.path.join("replays", "%s-%s-%d.json" % (prop, seed, n))
    with open(os.path.join(VERIF, rel), "w") as f:
        json.dump(obj, f, indent=1, default=str)
    return rel


def main(mod, argv):
    import argparse
    ap = argparse.ArgumentParser()
    ap.add_argument("--tier", default=os.environ.get("VERIF_TIER", "quick"))
    ap.add_argument("--replay")
    args = ap.parse_args(argv)
    tier = args.tier if args.tier in ("quick", "thorough") else "quick"
    try:
        seed = int(os.environ.get("VERIF_SEED", "0"))
    except ValueError:
        seed = 0
    prop = mod.PROP
    use_repo()

    if args.replay:
        obj = json.load(open(args.replay))
        ctx = Ctx(prop, tier, seed)
        ok, log, _ = lake_build(list(mod.LEAN_MODULES) + list(getattr(mod, "MODEL_MODULES", []))
                                + ["MpgsModel.Model.DriverUtil"])
        ctx.lean_ok = ok
        return mod.replay(ctx, obj) if hasattr(mod, "replay") else generic_replay(ctx, mod, obj)

    t0 = time.time()
    ctx = Ctx(prop, tier, seed)
    problems = []   # (kind, detail) that mean "no longer shown to hold"

    # 0. secondary tie (DESIGN 4.2): regenerate the integer kernels from the SOURCE of the tree under test
    equiv_groups = dict(getattr(mod, "EQUIV", {}))          # group -> theorem names
    equiv = [t for g in equiv_groups for t in equiv_groups[g]]
    translator = None
    good_groups = []
    equiv_lock = None
    if equiv_groups:
        # the generated files are shared by every check run from this /verif: regenerate -> build -> audit happen under one lock, so
        # that checks running at the same time against DIFFERENT trees (VERIF_REPO) cannot see each other's kernels half-way
        import fcntl
        equiv_lock = open(os.path.join(LEAN_DIR, ".equiv.lock"), "w")
        fcntl.flock(equiv_lock, fcntl.LOCK_EX)
    if equiv_groups:
        from harness import translate
        try:
            rep = translate.regenerate(REPO, VERIF)
            translator = {"regenerated_from": REPO, "groups": {g: rep[g] for g in equiv_groups}}
            for g in equiv_groups:
                if rep[g]["error"]:
                    problems.append(("translator", "a kernel of group %s left the subset the translator accepts (its Lean definition could "
                                                   "not be regenerated, so Props/Equiv%s.lean no longer speaks about this source): %s"
                                     % (g, g, rep[g]["error"])))
                else:
                    good_groups.append(g)
        except Exception as e:
            translator = {"error": "%s: %s" % (type(e).__name__, e)}
            problems.append(("translator", "regenerating the kernels failed: %s: %s" % (type(e).__name__, e)))

    # 1. build (only the modules this property needs; setup_cmd builds everything)
    targets = list(mod.LEAN_MODULES) + list(getattr(mod, "MODEL_MODULES", [])) + ["MpgsModel.Model.DriverUtil"]
    ok, log, build_s = lake_build(targets)
    equiv_ok = []
    for g in good_groups if ok else []:
        # built on its own: when a regenerated kernel no longer equals the model, the model, its theorems and the driver still
        # build, and the differential and the monitors go on to look for a concrete failing input
        gok, elog, es = lake_build(["MpgsModel.Props.Equiv" + g])
        build_s += es
        if gok:
            equiv_ok.append(g)
        else:
            tail = "\n".join([l for l in elog.split("\n") if "error" in l.lower()][:8]) or elog[-800:]
            problems.append(("equivalence", "Props/Equiv%s.lean no longer checks: a kernel regenerated from the source differs from "
                                            "the model definition the theorems are about: %s" % (g, tail)))
    if not ok:
        ctx.lean_ok = False
        ctx.lean_problem = "lake build failed"
        tail = "\n".join([l for l in log.split("\n") if "error" in l.lower()][:20]) or log[-1500:]
        problems.append(("build", "lake build failed: " + tail))

    # 2. audit
    theorems = [t[0] for t in mod.THEOREMS]
    axioms, audit_out = ({}, "")
    discharged = 0
    if ok:
        hits = forbidden_scan()
        if hits:
            problems.append(("audit", "forbidden tokens: " + "; ".join(hits[:10])))
        axioms, audit_out = run_audit(prop, mod.LEAN_MODULES, theorems)
        for name in theorems:
            ax = axioms.get(name)
            if ax is None:
                problems.append(("audit", "theorem %s missing or not checked" % name))
            elif not set(ax) <= ALLOWED_AXIOMS:
                problems.append(("audit", "theorem %s uses axioms %s" % (name, ax)))
            else:
                discharged += 1
        for g in equiv_ok:
            eax, _ = run_audit(prop + "_equiv" + g, ["MpgsModel.Props.Equiv" + g], equiv_groups[g])
            for name in equiv_groups[g]:
                ax = eax.get(name)
                axioms[name] = ax
                if ax is None:
                    problems.append(("audit", "theorem %s missing or not checked" % name))
                elif not set(ax) <= ALLOWED_AXIOMS:
                    problems.append(("audit", "theorem %s uses axioms %s" % (name, ax)))
                else:
                    discharged += 1
    theorems = theorems + equiv
    if equiv_lock is not None:
        import fcntl
        fcntl.flock(equiv_lock, fcntl.LOCK_UN)
        equiv_lock.close()
    leancheck = None
    if ok and tier == "thorough":
        try:
            p = subprocess.run(["lake", "env", "leanchecker"] + mod.LEAN_MODULES, cwd=LEAN_DIR,
                               capture_output=True, text=True, timeout=1800)
            leancheck = (p.returncode == 0)
            if p.returncode != 0:
                problems.append(("audit", "leanchecker rejected: " + (p.stdout + p.stderr)[-800:]))
        except subprocess.TimeoutExpired:
            leancheck = None
            ctx.notes["leanchecker"] = "timed out (not counted)"

    # 3/4. correspondence + monitors (module-specific)
    try:
        mod.run(ctx)
    except LeanUnavailable as e:
        ctx.lean_ok = False
        ctx.lean_problem = str(e)
    except Exception as e:      # the harness could not drive the code under test (renamed attribute, changed signature ...)
        import traceback
        tb = traceback.format_exc()
        problems.append(("harness", "driving the implementation failed: %s: %s | %s" % (type(e).__name__, e, tb.strip().split("\n")[-3:])))
    if not ctx.lean_ok and ok:
        problems.append(("driver", "Lean driver unavailable: %s" % ctx.lean_problem))

    for d in ctx.disagreements:
        problems.append(("correspondence", "layer %s: model and implementation differ" % d["layer"]))

    # 5. verdict
    known = [k for k in load_known() if k.get("property") == prop and k.get("status", "known") == "known"]
    violations = []
    printed = []
    n = 0
    unknown_failures = []
    for f in ctx.failures:
        match = [k for k in known if k.get("classifier") == f["kind"]]
        if match:
            line = "KNOWN-FINDING: property=%s %s" % (prop, match[0]["what"])
            if line not in printed:
                printed.append(line)
        else:
            unknown_failures.append(f)
    # group unknown failures by kind, one replay per kind (first = smallest found)
    seen_kinds = set()
    for f in unknown_failures:
        if f["kind"] in seen_kinds:
            continue
        seen_kinds.add(f["kind"])
        n += 1
        rel = write_replay(prop, seed, n, {"property": prop, "type": "failing-input", "kind": f["kind"],
                                           "what": f["what"], "replay": f["replay"],
                                           "broken_obligations": [p[1] for p in problems][:10]})
        violations.append("VIOLATION property=%s replay=%s" % (prop, rel))
    if problems and not unknown_failures:
        n += 1
        obj = {"property": prop, "type": "no-failing-input-found",
               "no_longer_checks": [{"kind": k, "detail": d} for k, d in problems][:20],
               "disagreements": ctx.disagreements[:5],
               "theorems": theorems}
        rel = write_replay(prop, seed, n, obj)
        violations.append("VIOLATION property=%s replay=%s no-failing-input-found" % (prop, rel))

    wall = time.time() - t0
    ev = {
        "property_id": prop,
        "tier": tier,
        "seed": seed,
        "level": "proof",
        "coverage": {
            "obligations": len(theorems),
            "discharged": discharged,
            "checker_cmd": "cd lean && lake build && lake env lean Audit/%s.lean   (#print axioms per theorem)%s"
                           % (prop, "; lake env leanchecker " + " ".join(mod.LEAN_MODULES) if tier == "thorough" else ""),
            "trusted_base": TRUSTED_BASE + list(getattr(mod, "TRUSTED_EXTRA", [])),
            "theorems": [{"name": t[0], "kind": t[1], "axioms": axioms.get(t[0])} for t in mod.THEOREMS]
                        + [{"name": t, "kind": "equivalence (regenerated kernel = model)", "axioms": axioms.get(t)} for t in equiv],
            "translator": translator,
            "evaluations": ctx.evaluations,
            "distinct_nontrivial": len(ctx.hashes_nontrivial),
            "rule": " | ".join(ctx.rules) or getattr(mod, "RULE", ""),
            "samples": ctx.samples or [{"note": "no sample recorded"}],
            "traces_validated_against_impl": ctx.evaluations - sum(l.get("disagreements", 0) for l in ctx.layers.values()),
            "layers": ctx.layers,
            "histogram": dict(sorted(ctx.hist.items())),
            "correspondence_disagreements": len(ctx.disagreements),
            "monitor_failures": len(ctx.failures),
            "known_findings_printed": printed,
            "build_s": round(build_s, 2),
            "leanchecker_ok": leancheck,
            "notes": ctx.notes,
        },
        "assumptions": list(getattr(mod, "ASSUMPTIONS", [])),
        "wall_s": round(wall, 2),
        "violations": len(violations),
    }
    if discharged == 0:
        # schema: proof keys need discharged >= 1; fall back to the exploration counts
        del ev["coverage"]["discharged"]
        ev["coverage"]["discharged_count"] = 0
    os.makedirs(os.path.join(VERIF, "evidence"), exist_ok=True)
    with open(os.path.join(VERIF, "evidence", prop + ".json"), "w") as f:
        json.dump(ev, f, indent=1, default=str)

    for line in printed:
        print(line)
    for k, d in problems[:8]:
        print("note: %s: %s" % (k, d[:300]))
    for v in violations:
        print(v)
    print("%s %s seed=%d: obligations %d/%d, cases %d (distinct non-trivial %d), disagreements %d, "
          "monitor failures %d, %.1fs" % (prop, tier, seed, discharged, len(theorems), ctx.evaluations,
                                           len(ctx.hashes_nontrivial), len(ctx.disagreements),
                                           len(ctx.failures), wall))
    return 1 if violations else 0


def generic_replay(ctx, mod, obj):
    print(json.dumps(obj, indent=1)[:4000])
    if hasattr(mod, "replay_case"):
        return mod.replay_case(ctx, obj)
    return 0
