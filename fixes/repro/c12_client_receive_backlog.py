from common import *
import mpgameserver.client as CL
clk = Clock()
class Sock:
    def __init__(s): s.inbox = []
    def sendto(s, *a): pass
    def recvfrom(s, n): return s.inbox.pop(0)
    def close(s): pass
CL.select = type("Sel", (), {"select": staticmethod(lambda r, w, x, t=None: ([s for s in r if s.inbox], list(w), []))})
srv, _x, _ = pair(clock=clk)[1], None, None          # a keyed server-side ConnectionBase that emits keep-alives
srv.send_keep_alive_interval = 1 / 32                # server keep-alive 31 ms ...
cl = CL.UdpClient(); cl.sock = Sock(); cl.addr = ("2.2.2.2", 2)
cl.conn = C.ClientServerConnection(cl.addr); cl.conn.clock = clk
cl.conn.session_key_bytes = srv.session_key_bytes; cl.conn.status = C.ConnectionStatus.CONNECTED
for tick in range(1, 6 * 1024 + 6 * 1024 + 512):                         # 1 ms steps; the client runs at 10 Hz (every 100 ms)
    clk.t += 1 / 1024
    if tick <= 6 * 1024:                             # the server dies after 6 s
        pkt = srv._build_packet()
        if pkt: cl.sock.inbox.append((srv._encode_packet(pkt), cl.addr))
    if tick % 100 == 0:
        cl.update()
done(cl.conn.status == C.ConnectionStatus.DROPPED,
     "server silent for 6.5 s: client status %s, %d unread datagrams still queued, last_recv_time %.2f s old"
     % (cl.conn.status, len(cl.sock.inbox), clk.t - cl.conn.last_recv_time))
