from common import *
bad = []
for mtu in (1500, 1098, 1097, 512):
    C.Packet.setMTU(mtu)
    M = C.Packet.MAX_PAYLOAD_SIZE; F = C.Packet.MAX_FRAGMENT_SIZE
    for n in (M - 2, M - 1, M, M + 1, F + (M - 7), 2 * F, 2 * F + (M - 7), 3 * F + 5):
        a, b, clk = pair()
        a.send(bytes(n % 251 for _ in range(n)), retry=C.RetryMode.RETRY_ON_TIMEOUT)
        for _ in range(12): pump(a, b, clk); pump(b, a, clk)
        got = [m for _, m in b.incoming_messages]
        if len(got) != 1 or len(got[0]) != n or a.outgoing_messages:
            bad.append((mtu, n, len(a.outgoing_messages)))
C.Packet.setMTU(1500)
done(not bad, "payload sizes never sent over a perfect link (mtu, length, left in queue): %s" % bad[:12])
