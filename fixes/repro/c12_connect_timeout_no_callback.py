from common import *
res = {}
for with_cb in (True, False):
    clk = Clock(); calls = []
    cl = C.ClientServerConnection(("1.1.1.1", 1)); cl.clock = clk; cl.temp_connection_timeout = 2.0
    cl.connection_callback = (lambda ok: calls.append(ok)) if with_cb else None
    cl._sendClientHello()
    for _ in range(100):
        clk.t += 0.1; cl.update()
    res[with_cb] = (str(cl.status), calls)
done("DISCONNECTED" in res[False][0] and "DISCONNECTED" in res[True][0] and res[True][1] == [False],
     "unanswered connect after 10 s (with callback / without): %s" % res)
