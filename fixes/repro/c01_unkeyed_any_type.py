from common import *
# a client that has sent its hello and waits for the server hello (no key yet)
cl = C.ClientServerConnection(("9.9.9.9", 9)); cl.clock = Clock(); cl._sendClientHello()
f = forged(False, C.PacketType.APP, [(1, C.PacketType.APP, b"evil")], seq=1)
r1 = cl._recv_datagram(C.PacketHeader.from_bytes(False, f), f)
f2 = forged(False, C.PacketType.SERVER_HELLO, [(2, C.PacketType.APP, b"evil2"), (3, C.PacketType.DISCONNECT, b"")], seq=2)
r2 = cl._recv_datagram(C.PacketHeader.from_bytes(False, f2), f2)
done(not cl.incoming_messages and cl.status == C.ConnectionStatus.CONNECTING and r1 is False and r2 is False,
     "unkeyed CONNECTING client fed forged plaintext APP datagrams: delivered=%r status=%s rets=%s,%s" %
     (cl.incoming_messages, cl.status, r1, r2))
