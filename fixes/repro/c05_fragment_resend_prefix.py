from common import *
a, b, clk = pair()
n = 3000
data = bytes((i * 7) % 256 for i in range(n))
a.send(data, retry=C.RetryMode.RETRY_ON_TIMEOUT)
lost = pump(a, b, clk, deliver=False)         # the datagram with the first fragment(s) is lost
for _ in range(200):
    pump(a, b, clk); pump(b, a, clk)
    a._check_timeout(clk.t); b._check_timeout(clk.t)
got = [m for _, m in b.incoming_messages]
done(got == [data], "guaranteed 3000-byte message after losing its first datagram: delivered %s, receiver contexts %s" %
     ([len(g) for g in got], {k: (v.frag_count) for k, v in b.received_fragments.items()}))
