"""C11: bytes sent to an unverified address never exceed the bytes received from it - for every MTU.
usage: python c11_small_mtu_amplification.py [repo]   prints DEFECT (exit 1) or OK (exit 0)"""
import sys, logging
sys.path.insert(0, sys.argv[1] if len(sys.argv) > 1 else "/repo")
logging.disable(logging.CRITICAL)
import mpgameserver.connection as C
from mpgameserver.context import ServerContext
from mpgameserver.handler import EventHandler
from mpgameserver import crypto
key = crypto.EllipticCurvePrivateKey.new()
bad = []
for mtu in range(360, 420):
    C.Packet.setMTU(mtu)
    cl = C.ClientServerConnection(("1.1.1.1", 1)); cl.clock = lambda: 1000.0
    cl._sendClientHello(); d = cl._encode_packet(cl._build_packet())
    ctxt = ServerContext(EventHandler(), key)
    sc = C.ServerClientConnection(ctxt, ("2.2.2.2", 2)); sc.clock = lambda: 1000.0
    ctxt.temp_connections[sc.addr] = sc
    sc._recv_datagram(C.PacketHeader.from_bytes(True, d), d)
    sc.last_send_time = 0
    q = sc._build_packet()
    e = sc._encode_packet(q) if q else b""
    if len(e) > len(d):
        bad.append((mtu, len(d), len(e)))
C.Packet.setMTU(1500)
if bad:
    print("DEFECT: (mtu, hello bytes, reply bytes) %s" % bad[:5]); sys.exit(1)
print("OK"); sys.exit(0)
