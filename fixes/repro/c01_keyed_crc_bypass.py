from common import *
a, b, clk = pair()
pump(a, b, clk); pump(b, a, clk)           # some genuine traffic both ways
got = []
a.send(b"x", callback=lambda ok: got.append(ok)); d = pump(a, b, clk, deliver=True)
before = snapshot(a)
# attacker: plaintext datagram typed SERVER_HELLO towards the keyed client, two inner APP messages, forged ack
f = forged(False, C.PacketType.SERVER_HELLO, [(900, C.PacketType.APP, b"evil"), (901, C.PacketType.APP, b"evil2")],
           seq=500, ack=int(a.seq_sending), bits=0xFFFFFFFF)
r = a._recv_datagram(C.PacketHeader.from_bytes(False, f), f)
after = snapshot(a)
before.pop("recv"); after.pop("recv")
done(r is False and before == after, "keyed client: forged CRC datagram typed SERVER_HELLO -> ret=%s changed=%s cb=%s" %
     (r, [k for k in before if before[k] != after[k]], got))
