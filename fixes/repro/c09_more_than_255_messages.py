from common import *
a, b, clk = pair()
for i in range(300): a.send(b"")
err = None; total = 0
try:
    for _ in range(6):
        clk.t += 1 / 32
        p = a._build_packet()
        if p is None: break
        d = a._encode_packet(p); total += p.hdr.count
        assert len(d) <= C.Packet.MAX_SIZE
        b._recv_datagram(C.PacketHeader.from_bytes(True, d), d)
except Exception as e:
    err = repr(e)
done(err is None and len(b.incoming_messages) == 300 and not a.outgoing_messages,
     "300 empty messages queued in one tick: error=%s delivered=%d left=%d" % (err, len(b.incoming_messages), len(a.outgoing_messages)))
