from common import *
a, b, clk = pair()
a.send(b"first"); d0 = pump(a, b, clk)
n0 = len(b.incoming_messages)
for i in range(40):                       # 40 newer datagrams move the 32-wide window past d0
    a.send(b"m%d" % i); pump(a, b, clk); pump(b, a, clk)
before = snapshot(b); dropped = b.stats.dropped
r = b._recv_datagram(C.PacketHeader.from_bytes(True, d0), d0)     # replay of the recorded datagram
after = snapshot(b)
done(r is False and before == after and b.stats.dropped == dropped + 1,
     "datagram replayed after 40 newer ones: ret=%s changed=%s dropped+%d" %
     (r, [k for k in before if before[k] != after[k]], b.stats.dropped - dropped))
