"""helpers for the defect reproduction scripts (run: /venv/bin/python fixes/repro/<name>.py [repo])"""
import os, sys
REPO = sys.argv[1] if len(sys.argv) > 1 else os.environ.get("VERIF_REPO", "/repo")
sys.path.insert(0, REPO)
import mpgameserver
assert os.path.realpath(mpgameserver.__file__).startswith(os.path.realpath(REPO))
from mpgameserver import connection as C
from mpgameserver import crypto

class Clock:
    def __init__(self, t=1000.0): self.t = t
    def __call__(self): return self.t

def pair(key=b"K" * 16, clock=None):
    """an established client/server pair of ConnectionBase objects sharing a key"""
    clock = clock or Clock()
    a = C.ConnectionBase(False, ("1.1.1.1", 1)); b = C.ConnectionBase(True, ("2.2.2.2", 2))
    for x in (a, b):
        x.clock = clock; x.session_key_bytes = key; x.status = C.ConnectionStatus.CONNECTED
        x.send_interval = 1 / 64
    # FragmentReceiver.expired() reads time.time() while everything else reads conn.clock: one clock for both
    C.time = type("T", (), {"time": staticmethod(lambda: clock.t), "monotonic": staticmethod(lambda: clock.t)})
    return a, b, clock

def pump(src, dst, clock, dt=1 / 32, deliver=True):
    """one build on src, delivered to dst; returns datagram or None"""
    clock.t += dt
    pkt = src._build_packet()
    if pkt is None:
        return None
    d = src._encode_packet(pkt)
    if deliver:
        hdr = C.PacketHeader.from_bytes(dst.isServer, d)
        dst._recv_datagram(hdr, d)
    return d

def forged(to_server, ptype, msgs, seq=7, ack=0, bits=0, ctime=1000):
    """a CRC-valid plaintext datagram an attacker can build without any key"""
    hdr = C.PacketHeader.create(not to_server, ctime, ptype, C.SeqNum(seq), C.SeqNum(ack), bits)
    pm = [C.PendingMessage(C.SeqNum(s), t, p, None, 0) for (s, t, p) in msgs]
    pkt = C.Packet.create(hdr, pm)
    return pkt.to_bytes(None)

def snapshot(conn):
    return dict(incoming=list(conn.incoming_messages), acks=dict(conn.pending_acks), key=conn.session_key_bytes,
                status=conn.status, last=conn.last_recv_time, pk=(int(conn.bitfield_pkt.current_seqnum), conn.bitfield_pkt.bits),
                mk=(int(conn.bitfield_msg.current_seqnum), conn.bitfield_msg.bits), acked=conn.stats.acked,
                tmo=conn.stats.timeouts, recv=conn.stats.received)

def done(ok, what):
    print(("OK   " if ok else "DEFECT ") + what)
    sys.exit(0 if ok else 1)
