from common import *
res = {}
for mode in (C.RetryMode.NONE, C.RetryMode.RETRY_ON_TIMEOUT):
    a, b, clk = pair()
    fired = []
    a.send(bytes(5000), retry=mode, callback=lambda ok: fired.append(ok))
    for _ in range(100):
        pump(a, b, clk); pump(b, a, clk); a._check_timeout(clk.t)
    res["NONE" if mode == C.RetryMode.NONE else "RETRY_ON_TIMEOUT"] = (fired, len(b.incoming_messages), len(a.pending_fragments))
# and a lost unretried fragmented send must report False exactly once
a, b, clk = pair(); fired = []
a.send(bytes(5000), retry=C.RetryMode.NONE, callback=lambda ok: fired.append(ok))
for _ in range(100):
    pump(a, b, clk, deliver=False); a._check_timeout(clk.t)
res["NONE-all-lost"] = (fired, len(b.incoming_messages), len(a.pending_fragments))
done(res["NONE"][0] == [True] and res["RETRY_ON_TIMEOUT"][0] == [True] and res["NONE-all-lost"][0] == [False],
     "fragmented send callbacks (fired, delivered, sender contexts left): %s" % res)
