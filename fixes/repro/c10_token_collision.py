from common import *
import os, struct
from mpgameserver.context import ServerContext
from mpgameserver.handler import EventHandler
ctxt = ServerContext(EventHandler())
draws = [b"\x12\x34\x56\x78", b"\x12\x34\x56\x78", b"\x12\x34\x56\x78", b"\x0a\x0b\x0c\x0d"]
real = os.urandom
import mpgameserver.context as X
X.os.urandom = lambda n: draws.pop(0) if (n == 4 and draws) else real(n)
c1 = C.ServerClientConnection(ctxt, ("1.1.1.1", 1)); c1.token = ctxt.get_token(); ctxt.connections[c1.addr] = c1
c2 = C.ServerClientConnection(ctxt, ("2.2.2.2", 2)); c2.token = ctxt.get_token(); ctxt.temp_connections[c2.addr] = c2
c3 = C.ServerClientConnection(ctxt, ("3.3.3.3", 3)); c3.token = ctxt.get_token()
X.os.urandom = real
done(len({c1.token, c2.token, c3.token}) == 3, "tokens when the random source repeats: %x %x %x" % (c1.token, c2.token, c3.token))
