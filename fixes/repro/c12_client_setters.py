from common import *
from mpgameserver.client import UdpClient
import mpgameserver.client as CL
class FakeSock:
    def sendto(self, *a): pass
    def close(self): pass
problems = []
cl = UdpClient(); cl._make_socket = lambda addr: FakeSock()
cl.setKeepAliveInterval(0.5); cl.setConnectionTimeout(7.0); cl.setMessageTimeout(3.0)
cl.connect(("127.0.0.1", 1))
if cl.conn.send_keep_alive_interval != 0.5: problems.append("keep-alive set before connect not applied (%r)" % cl.conn.send_keep_alive_interval)
if cl.conn.temp_connection_timeout != 7.0 or cl.conn.outgoing_timeout != 3.0: problems.append("timeouts set before connect not applied")
for name, attr, val in (("setConnectionTimeout", "temp_connection_timeout", 9.0), ("setMessageTimeout", "outgoing_timeout", 4.0),
                        ("setKeepAliveInterval", "send_keep_alive_interval", 0.25)):
    try:
        getattr(cl, name)(val)
        if getattr(cl.conn, attr) != val: problems.append("%s after connect not applied" % name)
    except Exception as e:
        problems.append("%s after connect raised %r" % (name, e))
done(not problems, "UdpClient settings: %s" % (problems or "all effective"))
