from common import *
from mpgameserver.client import UdpClient
cl = UdpClient(); cl.conn = C.ClientServerConnection(("1.1.1.1", 1)); cl.conn.status = C.ConnectionStatus.CONNECTED
try:
    cl.send_guaranteed(b"x"); ok = len(cl.conn.outgoing_messages) == 1 and cl.conn.outgoing_messages[0].retry == C.RetryMode.RETRY_ON_TIMEOUT; why = ""
except Exception as e:
    ok = False; why = repr(e)
done(ok, "UdpClient.send_guaranteed: %s" % (why or "queued with RETRY_ON_TIMEOUT"))
