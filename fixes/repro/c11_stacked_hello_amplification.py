"""C11: bytes sent to an address that has not completed the handshake never exceed the bytes received from it.
A peer that has received the server hello holds the session key without having answered the challenge.  It
seals ONE datagram of type CHALLENGE_RESP that carries several CLIENT_HELLO messages; each is answered with a
SERVER_HELLO of its own, and when the replies do not fit one datagram together the framing of the extra
datagrams makes the server send more than it received (MTU 390..392 with the default keys).
usage: python c11_stacked_hello_amplification.py [repo]   prints DEFECT (exit 1) or OK (exit 0)"""
import sys, logging, struct
sys.path.insert(0, sys.argv[1] if len(sys.argv) > 1 else "/repo")
logging.disable(logging.CRITICAL)
import mpgameserver.connection as C
from mpgameserver.context import ServerContext
from mpgameserver.handler import EventHandler
from mpgameserver import crypto
key = crypto.EllipticCurvePrivateKey.new()
bad, replies = [], []
for mtu in [m for m in range(388, 395) for _ in range(6)] + [512, 1500]:   # signature sizes vary by a byte or two: several tries
    C.Packet.setMTU(mtu)
    now = [1000.0]
    cl = C.ClientServerConnection(("1.1.1.1", 1)); cl.clock = lambda: now[0]
    cl.server_public_key = key.getPublicKey()
    cl._sendClientHello(); d = cl._encode_packet(cl._build_packet())
    ctxt = ServerContext(EventHandler(), key)
    sc = C.ServerClientConnection(ctxt, ("2.2.2.2", 2)); sc.clock = lambda: now[0]
    ctxt.temp_connections[sc.addr] = sc
    tin, tout = len(d), 0
    sc._recv_datagram(C.PacketHeader.from_bytes(True, d), d)
    now[0] += 0.1
    q = sc._build_packet()
    if not q:
        continue                       # the hello was too small for this MTU: not answered at all
    e = sc._encode_packet(q); tout += len(e)
    cl._recv_datagram(C.PacketHeader.from_bytes(False, e), e)
    m = C.HandshakeClientHelloMessage(); m.client_pubkey = cl.session_key.getPublicKey(); m.client_version = cl.version
    hp = m.dumpb()
    n = max(2, min(6, (C.Packet.RECV_SIZE - 36) // (5 + len(hp))))
    body = b"".join(struct.pack(">HHB", len(hp), 100 + i, C.PacketType.CLIENT_HELLO.value) + hp for i in range(n))
    hdr = C.PacketHeader.create(False, int(now[0]), C.PacketType.CHALLENGE_RESP, C.SeqNum(2), C.SeqNum(1), 0)
    hdr.length = len(body); hdr.count = n
    hb = hdr.to_bytes()
    dg = hb + crypto.encrypt_gcm(cl.session_key_bytes, hb[:C.PacketHeader.IV_SIZE], hb, body)
    if len(dg) > C.Packet.RECV_SIZE:
        continue
    tin += len(dg)
    try:
        sc._recv_datagram(C.PacketHeader.from_bytes(True, dg), dg)
    except Exception:
        pass
    k = 0
    for _ in range(40):
        now[0] += 0.05
        q = sc._build_packet()
        if q:
            tout += len(sc._encode_packet(q)); k += 1
    replies.append(k)
    if tout > tin:
        bad.append((mtu, n, tin, tout, k))
C.Packet.setMTU(1500)
if bad:
    print("DEFECT: (mtu, hellos stacked, bytes in, bytes out, further reply datagrams) %s" % bad[:5]); sys.exit(1)
print("OK (further replies to stacked hellos: %s)" % sorted(set(replies))); sys.exit(0)
