from common import *
from mpgameserver.server import UdpServerThread
from mpgameserver.context import ServerContext
from mpgameserver.handler import EventHandler
class Sock:
    def __init__(self): self.out = []
    def sendto(self, d, addr): self.out.append((addr, d))
class BadPkt:
    def to_bytes(self, key): raise ValueError("cannot encode")
a, b, clk = pair()
a.send(b"secret for A"); clk.t += 1
good = a._build_packet()
sock = Sock(); th = UdpServerThread(sock, ServerContext(EventHandler()))
err = None
try:
    th.send([(good, a.session_key_bytes, ("A", 1)), (BadPkt(), None, ("B", 2))])
except Exception as e:
    err = repr(e)
try:
    th2 = UdpServerThread(Sock(), ServerContext(EventHandler())); th2.send([(BadPkt(), None, ("B", 2))]); err2 = None
except Exception as e:
    err2 = repr(e)
done(err is None and err2 is None and [x[0] for x in sock.out] == [("A", 1)],
     "server send with a packet that fails to encode: sent to %s, exceptions %s / %s" % ([x[0] for x in sock.out], err, err2))
