from common import *
a, b, clk = pair()
a.send(b"hello"); clk.t += 1 / 32
d = a._encode_packet(a._build_packet())
ext = d + b"\x00junk"
r = b._recv_datagram(C.PacketHeader.from_bytes(True, ext), ext)
# unkeyed CRC form as well
s = C.ConnectionBase(True, ("3.3.3.3", 3)); s.clock = clk
h = forged(True, C.PacketType.CLIENT_HELLO, [(1, C.PacketType.CLIENT_HELLO, b"hi")], seq=1) + b"xx"
r2 = s._recv_datagram(C.PacketHeader.from_bytes(True, h), h)
done(r is False and not b.incoming_messages and r2 is False,
     "extended copy of a genuine datagram accepted: keyed=%s delivered=%r crc-form=%s" % (r, b.incoming_messages, r2))
