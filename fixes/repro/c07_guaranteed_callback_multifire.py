from common import *
a, b, clk = pair()
fired = []
a.send(b"payload", retry=C.RetryMode.RETRY_ON_TIMEOUT, callback=lambda ok: fired.append((round(clk.t - 1000, 3), ok)))
# acks are delayed by 0.4 s: the peer receives everything but its replies arrive late
held = []
for i in range(60):
    clk.t += 1 / 32
    p = a._build_packet()
    if p is not None:
        d = a._encode_packet(p); b._recv_datagram(C.PacketHeader.from_bytes(True, d), d)
    q = b._build_packet()
    if q is not None:
        held.append((clk.t + 0.4, b._encode_packet(q)))
    while held and held[0][0] <= clk.t:
        _, d = held.pop(0); a._recv_datagram(C.PacketHeader.from_bytes(False, d), d)
    a._check_timeout(clk.t)
delivered = [m for _, m in b.incoming_messages]
done(fired == [fired[0]] and fired[0][1] is True and delivered == [b"payload"],
     "guaranteed send with 0.4 s ack delay: callback fired %d times %s; delivered %d time(s)" % (len(fired), fired[:6], len(delivered)))
