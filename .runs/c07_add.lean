
/-! ### history level: conservation, hence exactly once

With a typed queue (an invariant of every reachable state), fresh datagram numbers at each build
(as in C05) and no `disconnect`, the inequality of `C07_at_most_once` is an equality: holders plus
invocations are conserved.  So a callback given to one accepted send is invoked exactly once as
soon as the connection no longer holds it - and it stops holding it only by invoking it. -/

/-- **Conservation.** `holders after + invocations = holders before + accepted sends given u`. -/
theorem C07_conservation (E : Env) (hR : E.R.KeepsPot) (hT : E.R.KeepsTyped) (u : Nat) (c : Conn) (ops : List Op)
    (hd : Direct0 u c) (ht : Typed c) (hf : FreshRun E c ops) (hbe : NoBestEffort u ops) (hnd : NoDisc ops) :
    pot u (run E c ops).1 + firedO u (run E c ops).2 = pot u c + introsA u E c ops :=
  pot_run_eq u E hR hT c ops hd ht hf hbe hnd

/-- **Exactly once.** A callback the connection did not hold, given to exactly one accepted
unretried or guaranteed send (single datagram or fragmented): once the connection holds it no
longer (every datagram that carried it was acknowledged or timed out; for a guaranteed send: was
acknowledged), it has been invoked exactly once - never zero times, never twice. -/
theorem C07_exactly_once (E : Env) (hR : E.R.KeepsPot) (hT : E.R.KeepsTyped) (u : Nat) (c : Conn) (ops : List Op)
    (hd : Direct0 u c) (ht : Typed c) (hf : FreshRun E c ops) (hbe : NoBestEffort u ops) (hnd : NoDisc ops)
    (h0 : pot u c = 0) (h1 : introsA u E c ops = 1) (hend : pot u (run E c ops).1 = 0) :
    firedO u (run E c ops).2 = 1 := by
  have := C07_conservation E hR hT u c ops hd ht hf hbe hnd
  omega

/-- ... and as long as it has not been invoked, the connection still holds it -/
theorem C07_held_until_invoked (E : Env) (hR : E.R.KeepsPot) (hT : E.R.KeepsTyped) (u : Nat) (c : Conn) (ops : List Op)
    (hd : Direct0 u c) (ht : Typed c) (hf : FreshRun E c ops) (hbe : NoBestEffort u ops) (hnd : NoDisc ops)
    (h0 : pot u c = 0) (h1 : introsA u E c ops = 1) (hnot : firedO u (run E c ops).2 = 0) :
    pot u (run E c ops).1 = 1 := by
  have := C07_conservation E hR hT u c ops hd ht hf hbe hnd
  omega
